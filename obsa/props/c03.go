package props

import (
	"fmt"
	"go/token"
	"sort"
	"strings"

	"golang.org/x/tools/go/ssa"

	"obsa/eng"
)

func init() {
	register(&Prop{
		ID: "C03",
		Explanation: "Structural necessary conditions of 'ACL decisions equal the documented policy semantics' (the part visible in the shape of acl.go / policy.go): " +
			"(1) default deny: every Allowed=true store in ACL.AllowOperation lies behind the root arm (namespace is under the root ACL's namespace: the true edge of requestNamespace.HasParent(a.root) with exactly these operands), the help arm, or the operationAllowed test together with the wrapping-TTL bounds; with every req.Operation == <const> test false no policy-arm Allowed=true store is reachable (the default arm denies); " +
			"(2) the operation↔capability table extracted from the operation switch equals the documented one (read→read … scan→scan; revoke/renew/rollback→update) and each arm tests and reports the same capability bit, every value flowing into operationAllowed is a single-bit test from an arm selected by an operation constant (or the constant false); ACL.Capabilities' bit→name chain equals the inverse of cap2Int; the policy parser accepts exactly the capability names of cap2Int and 'deny' overrides; " +
			"(3) deny is sticky and everything else is a union when rules for one pattern are merged (the deny-bit test counts whether spelled > 0 or != 0); " +
			"(4) the priority comparator of non-exact matches is the documented lexicographic order (first wildcard/glob position, prefix-ness, wildcard count, length, text) — decided by enumerating the closure's CFG paths over the five compared keys — and the caller takes the greatest element after sorting; exact matches are consulted before non-exact ones; " +
			"(5) rule paths and request paths are namespace-qualified, and the qualifying store lies on every path from the creation of a rule object to its append to the policy's paths; " +
			"(6) ownership: the per-request ACL never aliases mutable state of the cached policy objects — everything inserted into the ACL's rule trees comes from ACLPermissions.Clone or from the trees themselves, and map-typed permission fields are only assigned deep copies — so decisions cannot depend on which ACLs were built earlier; every map-, slice- and pointer-typed field of the value ACLPermissions.Clone returns is a fresh allocation or deep copy (never a load of the receiver's field), and a policy slice stored into the accumulated entry is replaced by an owned one before the entry is inserted; " +
			"(7) the rule stored under the request path without its trailing slash is consulted for list and scan only; " +
			"(8) for read/update/create/patch every allowing path ran the required-parameter loop to its end, then (when the request carries parameters) found denied_parameters empty or ran the denied loop to its end, then found allowed_parameters empty, equal to {\"*\"} or ran the allowed loop to its end; the refusing edges (required parameter absent, \"*\" denied, denied value, value outside the allowed list, parameter outside allowed_parameters without \"*\") never reach an allow; " +
			"(9) list and scan alike evaluate pagination_limit, and a limit above it, a negative limit or a missing required limit never reaches an allow; " +
			"(10) rules of a cached policy are merged, and cached policies handed out, only across the not-expired edges of their expiration; " +
			"(11) merging keeps the smaller of two max_wrapping_ttl / pagination_limit values (the stores X.F = Y.F are located through the field's writers in package policy, so a merge helper is followed); " +
			"(12) parameter names are lower-cased both where the parser stores them and where AllowOperation looks them up; " +
			"(13) the parser strips a trailing glob and sets IsPrefix together and never for segment-wildcard rules, and the legacy policy shorthands expand to the reviewed capability sets; the candidates handed to the priority comparator carry keys computed from their own pattern (prefix candidate: isPrefix, position = length of the matched prefix; segment candidate: strings.Index of '+', permissions looked up under the same pattern); " +
			"(14) Store.ACL fetches every attached policy name in the namespace it is attached in and builds no ACL after a failed fetch; " +
			"(15) Core.Capabilities builds the reported ACL from the looked-up token's own namespace, entity and no_identity_policies flag and refuses disabled or dangling entities first; the context in which the path is resolved is the request's own at every hop of both the report (Core.Capabilities → ACL.Capabilities → AllowOperation) and the enforcement (CheckToken → performPolicyChecks → AllowOperation), while only the ACL's construction uses the token-namespace context; " +
			"(16) list filtering keeps a key only across the Allowed edge of a per-key policy check made with the request's ACL, the templated path, the router's root-path flag and the unauth flag, and writes back only filtered keys and their key_info. (4c) in the segment-wildcard matcher the tail of the request path is accepted wholesale only for a pattern ending in * , on the LAST segment of the split pattern, behind the prefix test of the two segments (every other literal segment matches by equality).",
		NotDecided: "equality of decisions over the input space (radix lookups, glob/segment matching, valueInParameterList, parameter-list merging are value-level); pagination arithmetic; templated policies.",
		Run:        runC03,
	})
}

func runC03(c *eng.Ctx, thorough bool) {
	// ---------- C03.1 default deny
	if f := c.Fn("policy.(*ACL).AllowOperation"); f != nil {
		c.Clause("R2", "C03.1")
		var allow []ssa.Instruction
		for _, st := range eng.Stores(f, `\.Allowed$`) {
			if eng.Expr(st.Val) == "true" {
				allow = append(allow, st)
			}
		}
		if c.Floor(f, "Allowed = true stores", len(allow), 5) {
			rootArm := eng.G(f, `^a\.root == nil$`, false)
			help := eng.G(f, `^req\.Operation == "help"$`, true)
			opOK := eng.G(f, `^φoperationAllowed\{`, true)
			c.Cut(f, "ret.Allowed = true", allow, eng.Or(rootArm, help, opOK), nil)
			// the root arm requires the namespace relation
			var rootStores, other []ssa.Instruction
			for _, st := range allow {
				if eng.Reach(eng.Query{Fn: f, Blocked: rootArm.Edges, Target: func(in ssa.Instruction) bool { return in == st }}) == nil {
					rootStores = append(rootStores, st)
				} else {
					other = append(other, st)
				}
			}
			if c.Floor(f, "root-arm Allowed store", len(rootStores), 1) {
				c.Cut(f, "ret.Allowed = true (root ACL)", rootStores, eng.G(f, `^namespace\.\(\*Namespace\)\.HasParent\(\)$`, true), nil)
				// operands of that test: receiver = the request's namespace (from the
				// context), argument = the root ACL's namespace. Only the true edge of
				// a HasParent call with exactly these operands counts; the converse
				// relation (a.root under the request namespace) must not open the arm.
				under := eng.Guard{Desc: "requestNS.HasParent(a.root) with requestNS = namespace.FromContext(ctx)"}
				for _, nc := range nfCalls(f, `^namespace\.\(\*Namespace\)\.HasParent$`) {
					a := nc.Args
					cv, isCall := nc.In.(*ssa.Call)
					if !isCall || len(a) != 2 {
						continue
					}
					if ok, _, _ := eng.OriginsMatch(a[0], `^call:namespace\.FromContext#0$`); !ok {
						continue
					}
					if ok, _, _ := eng.OriginsMatch(a[1], `^field:a\.root$`); !ok {
						continue
					}
					under.Edges = append(under.Edges, eng.BoolEdges(cv, true)...)
				}
				c.Cut(f, "ret.Allowed = true (root ACL): namespace relation operands", rootStores, under, nil)
			}
			// default arm: a request whose operation matches none of the
			// req.Operation == <const> tests is never allowed by a non-root ACL
			c.Clause("R2", "C03.1")
			noOp := map[string]bool{`^req\.Operation == "[^"]*"$`: false, `^a\.root == nil$`: true}
			nOpTests := len(eng.CondEdges(f, `^req\.Operation == "[^"]*"$`, true))
			if c.Floor(f, "req.Operation == <const> tests", nOpTests, 10) {
				if h := eng.Reach(eng.Query{Fn: f, Assume: noOp, Target: eng.IsTarget(other)}); h != nil {
					c.Violation(f, "default arm (operation outside the table) never allows", h.Instr.Pos(), "an Allowed=true store is reachable for a non-root ACL when the operation equals none of the constants the function tests: operations outside the documented table are not denied", h.Witness)
				} else {
					c.OK(f, "default arm (operation outside the table) never allows", f.Pos(), fmt.Sprintf("with all %d req.Operation tests false no policy-arm Allowed=true store (%d) is reachable", nOpTests, len(other)))
				}
			}
			// non-root, non-help: operationAllowed plus wrapping TTL bounds
			asm := map[string]bool{`^a\.root == nil$`: true, `^req\.Operation == "help"$`: false}
			c.Cut(f, "ret.Allowed = true (policy decision)", other, opOK, asm)
			c.Cut(f, "ret.Allowed = true (policy decision)", other, eng.Or(eng.G(f, `^0 < φpermissions\{.*\}\.MaxWrappingTTL$`, false), eng.G(f, `\.MaxWrappingTTL < req\.WrapInfo\.TTL$`, false)), asm)
			c.Cut(f, "ret.Allowed = true (policy decision)", other, eng.Or(eng.G(f, `^0 < φpermissions\{.*\}\.MinWrappingTTL$`, false), eng.G(f, `^req\.WrapInfo\.TTL < φpermissions\{.*\}\.MinWrappingTTL$`, false)), asm)
			c.Cut(f, "ret.Allowed = true (policy decision)", other, eng.Or(eng.G(f, `^0 < φpermissions\{.*\}\.MaxWrappingTTL$`, false), eng.G(f, `^req\.WrapInfo == nil$`, false)), asm)
			// a matching rule was found
			c.Cut(f, "ret.Allowed = true (policy decision)", other, eng.Or(
				eng.G(f, c03RadixGet+`\(\)#1$`, true),
				eng.G(f, `CheckAllowedFromNonExactPaths\(\) == nil$`, false)), asm)
		}
		// ---------- C03.5 namespace qualification of the looked-up path
		c.Clause("R5", "C03.5")
		for _, g := range eng.Calls(f, c03RadixGet+`$`) {
			s := eng.ExprDeep(c03LastArg(g))
			if strings.Contains(s, "FromContext") && strings.Contains(s, ".Path") && strings.Contains(s, "req.Path") {
				c.OK(f, "path looked up is namespace-qualified", g.Pos(), s)
			} else {
				c.Violation(f, "path looked up is namespace-qualified", g.Pos(), "exact-rule lookup key is "+s+", expected ns.Path + req.Path", nil)
			}
		}
		// ---------- C03.4 exact before non-exact
		c.Clause("R3", "C03.4")
		c.Before(f, "exact rule lookup", gcIns(f, c03RadixGet+`$`), "non-exact lookup", gcIns(f, `CheckAllowedFromNonExactPaths$`))
		// ---------- C03.2 operation table
		c.Clause("R7", "C03.2")
		c03OpTable(c, f)
	}
	c03CapNames(c)
	c03Merge(c)
	c03Comparator(c)
	c03Ownership(c)

	// ---------- C03.5 rule paths are namespace-qualified
	if f := c.Fn("policy.parsePaths"); f != nil {
		c.Clause("R5", "C03.5")
		n := 0
		for _, st := range eng.Stores(f, `\.Path$`) {
			s := eng.ExprDeep(st.Val)
			if strings.Contains(s, "result.Namespace.Path + ") {
				n++
				c.OK(f, "rule path is namespace-qualified", st.Pos(), s)
			}
		}
		if n == 0 {
			c.Violation(f, "rule path is namespace-qualified", f.Pos(), "parsePaths no longer prefixes rule paths with the policy's namespace path", nil)
		}
		// every rule handed to the result is qualified: between the creation of a
		// rule object and its append to the policy's paths the qualifying store
		// pc.Path = result.Namespace.Path + pc.Path is executed on every path
		c.Clause("R3", "C03.5")
		nApp := 0
		for _, ap := range eng.Calls(f, `^append$`) {
			a := ap.Common().Args
			if ph, ok := a[0].(*ssa.Phi); !ok || eng.VarName(ph) != "paths" {
				continue
			}
			for _, rule := range appendedAllocs(a[1]) {
				nApp++
				var qual []ssa.Instruction
				for _, st := range eng.Stores(f, `\.Path$`) {
					fa, ok := st.Addr.(*ssa.FieldAddr)
					if !ok || fa.X != ssa.Value(rule) {
						continue
					}
					bo, ok := st.Val.(*ssa.BinOp)
					if !ok || bo.Op != token.ADD || eng.ExprDeep(bo.X) != "result.Namespace.Path" {
						continue
					}
					if ld, ok := bo.Y.(*ssa.UnOp); !ok || ld.Op != token.MUL || eng.Expr(ld.X) != eng.Expr(st.Addr) {
						continue
					}
					qual = append(qual, st)
				}
				site := "every appended rule is namespace-qualified"
				if h := eng.Reach(eng.Query{Fn: f, StartAfter: rule, Barriers: qual, Target: func(in ssa.Instruction) bool { return in == ssa.Instruction(ap) }}); h != nil {
					fact := "a rule can be appended to the policy's paths without passing pc.Path = result.Namespace.Path + pc.Path: it would speak about another namespace's paths"
					if len(qual) == 0 {
						fact = "no store Path = result.Namespace.Path + Path exists for the appended rule object; " + fact
					}
					c.Violation(f, site, ap.Pos(), fact, h.Witness)
				} else {
					c.OK(f, site, ap.Pos(), fmt.Sprintf("every path from the creation of the rule object to append(paths, &pc) passes one of the %d qualifying store(s)", len(qual)))
				}
			}
		}
		c.Floor(f, "rule objects appended to paths", nApp, 1)
	}
	runC03Gaps2(c)
	runC03Gaps3(c)
	// templating of identity values decides which rules a policy contributes: shared with C02.7
	runC02Gaps3(c, "C03.14")
}

// appendedAllocs: the local objects whose address is an element of the
// variadic slice v handed to append (append(xs, &a, &b) -> [a b]).
func appendedAllocs(v ssa.Value) []*ssa.Alloc {
	sl, ok := v.(*ssa.Slice)
	if !ok {
		return nil
	}
	arr, ok := sl.X.(*ssa.Alloc)
	if !ok || arr.Referrers() == nil {
		return nil
	}
	var out []*ssa.Alloc
	for _, r := range *arr.Referrers() {
		ia, ok := r.(*ssa.IndexAddr)
		if !ok || ia.Referrers() == nil {
			continue
		}
		for _, rr := range *ia.Referrers() {
			if st, ok := rr.(*ssa.Store); ok && st.Addr == ia {
				if a, ok := st.Val.(*ssa.Alloc); ok {
					out = append(out, a)
				}
			}
		}
	}
	return out
}

func posOfBlock(b *ssa.BasicBlock) token.Pos {
	for _, in := range b.Instrs {
		if in.Pos().IsValid() {
			return in.Pos()
		}
	}
	for _, p := range b.Preds {
		if len(p.Instrs) > 0 && p.Instrs[len(p.Instrs)-1].Pos().IsValid() {
			return p.Instrs[len(p.Instrs)-1].Pos()
		}
	}
	return b.Parent().Pos()
}

// c03OpTable extracts (operation constants -> capability mask tested, mask
// used for the granting-policies lookup) from the phis fed by the switch arms.
func c03OpTable(c *eng.Ctx, f *ssa.Function) {
	ref := map[string]string{
		"read": "policy.ReadCapabilityInt", "list": "policy.ListCapabilityInt", "update": "policy.UpdateCapabilityInt",
		"delete": "policy.DeleteCapabilityInt", "create": "policy.CreateCapabilityInt", "patch": "policy.PatchCapabilityInt",
		"scan": "policy.ScanCapabilityInt", "revoke": "policy.UpdateCapabilityInt", "renew": "policy.UpdateCapabilityInt", "rollback": "policy.UpdateCapabilityInt",
	}
	var allowedPhi, grantPhi *ssa.Phi
	for _, b := range f.Blocks {
		for _, in := range b.Instrs {
			if p, ok := in.(*ssa.Phi); ok {
				switch eng.VarName(p) {
				case "operationAllowed":
					if len(p.Edges) >= 8 {
						allowedPhi = p
					}
				case "grantingPolicies":
					if len(p.Edges) >= 8 {
						grantPhi = p
					}
				}
			}
		}
	}
	if allowedPhi == nil || grantPhi == nil || allowedPhi.Block() != grantPhi.Block() {
		c.Undecided(f, "operation switch", f.Pos(), "the operation→capability switch is no longer recognisable (phis operationAllowed/grantingPolicies joined in one block); re-read and teach the extractor")
		return
	}
	got := map[string][2]string{}
	for i, e := range allowedPhi.Edges {
		mask := andMask(e)
		gmask := ""
		if lk, ok := grantPhi.Edges[i].(*ssa.Lookup); ok {
			gmask = eng.Expr(lk.Index)
		}
		body := allowedPhi.Block().Preds[i]
		if mask == "" {
			// an edge that is not a (capabilities & bit) > 0 test may only be the initial constant false
			if cst, ok := e.(*ssa.Const); ok && eng.Expr(cst) == "false" {
				continue
			}
			c.Violation(f, "optable{edge}", posOfBlock(body), "operationAllowed receives "+eng.ExprDeep(e)+" on an edge of the operation switch: neither a documented single-bit test (capabilities & bit) > 0 nor the constant false", nil)
			continue
		}
		arms := opsLeadingTo(body)
		if len(arms) == 0 {
			c.Violation(f, "optable{edge}", posOfBlock(body), "a capability test ("+mask+") feeds operationAllowed from an arm that is not selected by a req.Operation == <const> test (the default arm?)", nil)
		}
		for _, op := range arms {
			got[op] = [2]string{mask, gmask}
		}
	}
	var ops []string
	for op := range ref {
		ops = append(ops, op)
	}
	sort.Strings(ops)
	for _, op := range ops {
		want, ok := c.P.ConstValue(ref[op])
		if !ok {
			c.Unresolved(ref[op])
			continue
		}
		g, found := got[op]
		switch {
		case !found:
			c.Violation(f, "optable{"+op+"}", f.Pos(), "operation "+op+" has no arm in the capability switch (it would be denied or fall through)", nil)
		case g[0] != want:
			c.Violation(f, "optable{"+op+"}", f.Pos(), fmt.Sprintf("operation %s is authorised by capability bit %s, documented bit is %s (%s)", op, g[0], want, ref[op]), nil)
		case g[1] != want:
			c.Violation(f, "optable{"+op+"}", f.Pos(), fmt.Sprintf("operation %s tests bit %s but reports the granting policies of bit %s", op, g[0], g[1]), nil)
		default:
			c.OK(f, "optable{"+op+"}", f.Pos(), fmt.Sprintf("%s → bit %s (%s), same bit for granting policies", op, want, ref[op]))
		}
	}
	for op := range got {
		if _, ok := ref[op]; !ok {
			c.Violation(f, "optable{"+op+"}", f.Pos(), "operation "+op+" has a capability arm that the documented table does not know", nil)
		}
	}
}

func andMask(v ssa.Value) string {
	bo, ok := v.(*ssa.BinOp)
	if !ok {
		return ""
	}
	// (cap & M) > 0
	if inner, ok := bo.X.(*ssa.BinOp); ok && inner.Op.String() == "&" {
		if c, ok := inner.Y.(*ssa.Const); ok {
			return eng.Expr(c)
		}
		if c, ok := inner.X.(*ssa.Const); ok {
			return eng.Expr(c)
		}
	}
	return ""
}

// opsLeadingTo: operation constants X such that an If testing
// req.Operation == X jumps to block b on its equal edge.
func opsLeadingTo(b *ssa.BasicBlock) []string {
	var out []string
	for _, p := range b.Preds {
		ifi := eng.IfOf(p)
		if ifi == nil {
			continue
		}
		nc := eng.Normalize(ifi.Cond)
		const pre = `req.Operation == "`
		if !strings.HasPrefix(nc.Base, pre) {
			continue
		}
		op := strings.TrimSuffix(strings.TrimPrefix(nc.Base, pre), `"`)
		eqEdge := 1
		if nc.Pol {
			eqEdge = 0
		}
		if p.Succs[eqEdge] == b {
			out = append(out, op)
		}
	}
	return out
}

func c03CapNames(c *eng.Ctx) {
	c.Clause("R7", "C03.2")
	lit, pos, ok := c.P.VarLitConsts("policy", "cap2Int")
	if !ok {
		c.Unresolved("policy.cap2Int")
		return
	}
	name2bit := map[string]string{}
	bit2name := map[string]string{}
	for _, kv := range lit {
		i := strings.LastIndex(kv, "=")
		name2bit[kv[:i]] = kv[i+1:]
		if _, dup := bit2name[kv[i+1:]]; dup {
			c.Violation(nil, "table{cap2Int injective}", pos, "two capability names share bit "+kv[i+1:], nil)
		}
		bit2name[kv[i+1:]] = kv[:i]
	}
	if len(name2bit) < 9 {
		c.Violation(nil, "table{cap2Int}", pos, "cap2Int lost entries", nil)
	}
	// ACL.Capabilities: (cap & M) > 0  =>  append(..., NAME)
	if f := c.Fn("policy.(*ACL).Capabilities"); f != nil {
		seen := map[string]bool{}
		// the bit→name chain sits in Capabilities itself or in a same-package function it hands the bitmap to
		tbl := c03TableBlocks(f)
		for _, b := range tbl {
			ifi := eng.IfOf(b)
			if ifi == nil {
				continue
			}
			mask := andMask(stripNot(ifi.Cond))
			if mask == "" {
				continue
			}
			nc := eng.Normalize(ifi.Cond)
			tb := b.Succs[0]
			if !nc.Pol {
				tb = b.Succs[1]
			}
			// the string stored into the appended varargs in the true block
			name := ""
			for _, in := range tb.Instrs {
				if st, ok := in.(*ssa.Store); ok {
					if cst, ok := st.Val.(*ssa.Const); ok && strings.HasPrefix(eng.Expr(cst), `"`) {
						name = strings.Trim(eng.Expr(cst), `"`)
					}
				}
			}
			if name == "" {
				continue
			}
			seen[name] = true
			if want, ok := name2bit[name]; !ok {
				c.Violation(f, "capname{"+name+"}", ifi.Pos(), "capability name not in cap2Int", nil)
			} else if want != mask {
				c.Violation(f, "capname{"+name+"}", ifi.Pos(), fmt.Sprintf("Capabilities reports %q for bit %s, cap2Int maps it to bit %s: the reported capability list would disagree with what is permitted", name, mask, want), nil)
			} else {
				c.OK(f, "capname{"+name+"}", ifi.Pos(), "bit "+mask+" ↔ "+name)
			}
		}
		if len(seen) == 0 {
			c.Undecided(f, "capname table", f.Pos(), "no (bitmap & bit) test followed by the append of a capability name in ACL.Capabilities nor in a same-package function it hands the bitmap to: moved? the rule cannot be evaluated")
		}
		for name := range name2bit {
			if len(seen) == 0 {
				break
			}
			if !seen[name] {
				c.Violation(f, "capname{"+name+"}", f.Pos(), "capability "+name+" is never reported by ACL.Capabilities", nil)
			}
		}
		// it asks AllowOperation for the bitmap of the same path
		c.Clause("R5", "C03.2")
		aos := gcEffs(f, `policy\.\(\*ACL\)\.AllowOperation$`)
		if len(aos) == 0 {
			c.Undecided(f, "prov{path whose capabilities are reported}", f.Pos(), "no call of ACL.AllowOperation in ACL.Capabilities (directly, through a method value, a closure or a same-package helper): moved? the rule cannot be evaluated")
		}
		for _, e := range aos {
			a, ao := gcArgs(e), e.Call.In
			paths := gcLitField(a[2], e.Fr, "Path")
			if len(paths) == 0 {
				c.Undecided(f, "prov{path whose capabilities are reported}", ao.Pos(), "the request handed to AllowOperation is not a literal the rule can see: moved? the rule cannot be evaluated")
			}
			for _, v := range paths {
				gcProv(c, f, "path whose capabilities are reported", ao, v.V, v.Fr, `^param:path$`)
			}
			if !nfIsConst(a[3], e.Fr, "true") {
				c.Violation(f, "capCheckOnly", ao.Pos(), "Capabilities must call AllowOperation with capCheckOnly=true", nil)
			}
		}
	}
	// the parser: every name of cap2Int except deny is accepted through cap2Int[cap]; deny sets exactly the deny bit
	if f := c.Fn("policy.parsePaths"); f != nil {
		c.Clause("R7", "C03.2")
		accepted := map[string]bool{}
		for _, b := range f.Blocks {
			ifi := eng.IfOf(b)
			if ifi == nil {
				continue
			}
			nc := eng.Normalize(ifi.Cond)
			if m := capCaseRe.FindStringSubmatch(nc.Base); m != nil {
				accepted[m[1]] = true
			}
		}
		for name := range name2bit {
			if accepted[name] {
				c.OK(f, "parser accepts{"+name+"}", f.Pos(), "capability name has a case in the parser")
			} else {
				c.Violation(f, "parser accepts{"+name+"}", f.Pos(), "capability "+name+" of cap2Int has no case in the policy parser", nil)
			}
		}
		for name := range accepted {
			if _, ok := name2bit[name]; !ok {
				c.Violation(f, "parser accepts{"+name+"}", f.Pos(), "the parser accepts capability name "+name+" that cap2Int does not define", nil)
			}
		}
		deny, _ := c.P.ConstValue("policy.DenyCapabilityInt")
		nDeny := 0
		for _, st := range eng.Stores(f, `\.CapabilitiesBitmap$`) {
			if cst, ok := st.Val.(*ssa.Const); ok && eng.Expr(cst) == deny {
				nDeny++
			}
		}
		if nDeny == 0 {
			c.Violation(f, "deny sets exactly the deny bit", f.Pos(), "no store of the constant DenyCapabilityInt into the bitmap", nil)
		} else {
			c.OK(f, "deny sets exactly the deny bit", f.Pos(), "deny arm stores the deny bit alone")
		}
		// ... and nothing is ORed into that rule's bitmap afterwards (deny ends the capability list of
		// the rule; the next rule starts from a bitmap reset to 0) — seed C03-b: `goto PathFinished` -> `break`
		c.Clause("R3", "C03.2")
		var denySt, initSt, orSt []ssa.Instruction
		for _, st := range eng.Stores(f, `\.CapabilitiesBitmap$`) {
			switch v := st.Val.(type) {
			case *ssa.Const:
				if eng.Expr(v) == deny {
					denySt = append(denySt, st)
				} else if eng.Expr(v) == "0" {
					initSt = append(initSt, st)
				}
			case *ssa.BinOp:
				if v.Op.String() == "|" {
					orSt = append(orSt, st)
				}
			}
		}
		if c.Floor(f, "bitmap reset per rule", len(initSt), 1) && c.Floor(f, "capability bits ORed in", len(orSt), 1) && len(denySt) > 0 {
			bad := false
			for _, d := range denySt {
				if h := eng.Reach(eng.Query{Fn: f, StartAfter: d, Barriers: initSt, Target: eng.IsTarget(orSt)}); h != nil {
					bad = true
					c.Violation(f, "deny ends the rule's capability list", h.Instr.Pos(), "after the deny bit was stored further capabilities can be ORed into the same rule's bitmap: [\"deny\", \"read\"] would grant read", h.Witness)
				}
			}
			if !bad {
				c.OK(f, "deny ends the rule's capability list", denySt[0].Pos(), "no OR into the bitmap is reachable from the deny store before the next rule resets it")
			}
		}
	}
}

// c03RadixGet matches a radix-tree Get called directly or through a bound
// method value (get := tree.Get; get(k)); the key is the last argument in both.
const c03RadixGet = `go-radix\.Tree\)\.Get(\$bound)?`

func c03LastArg(cl ssa.CallInstruction) ssa.Value {
	a := cl.Common().Args
	return a[len(a)-1]
}

// c03TableBlocks: the blocks of f, or — when f itself holds no (x & const) test
// — of the same-package functions f calls directly (one level) that do.
func c03TableBlocks(f *ssa.Function) []*ssa.BasicBlock {
	has := func(g *ssa.Function) bool {
		for _, b := range g.Blocks {
			if ifi := eng.IfOf(b); ifi != nil && andMask(stripNot(ifi.Cond)) != "" {
				return true
			}
		}
		return false
	}
	if has(f) {
		return f.Blocks
	}
	var out []*ssa.BasicBlock
	seen := map[*ssa.Function]bool{}
	for _, ci := range nfAllCalls(f) {
		if g := nfBody(ci, f); g != nil && !seen[g] && has(g) {
			seen[g] = true
			out = append(out, g.Blocks...)
		}
	}
	return out
}

func stripNot(v ssa.Value) ssa.Value {
	for {
		u, ok := v.(*ssa.UnOp)
		if !ok || u.Op.String() != "!" {
			return v
		}
		v = u.X
	}
}

// c03Merge: deny sticky, otherwise union.
func c03Merge(c *eng.Ctx) {
	f := c.Fn("policy.NewACL")
	if f == nil {
		return
	}
	c.Clause("R2", "C03.3")
	deny, _ := c.P.ConstValue("policy.DenyCapabilityInt")
	existing := `github\.\(\*com/armon/go-radix\.Tree\)\.Get\(\)#0|φraw\{.*\}`
	_ = existing
	var union, denyStore []ssa.Instruction
	for _, st := range eng.Stores(f, `\.\(\*policy\.ACLPermissions\)\.CapabilitiesBitmap$`) {
		if bo, ok := st.Val.(*ssa.BinOp); ok && bo.Op.String() == "|" {
			union = append(union, st)
		}
		if cst, ok := st.Val.(*ssa.Const); ok && eng.Expr(cst) == deny {
			denyStore = append(denyStore, st)
		}
	}
	// the deny-bit test may be spelled (x & deny) > 0 or (x & deny) != 0: both forms count
	exOperand := `φraw\{.*\}\.\(\*policy\.ACLPermissions\)\.CapabilitiesBitmap`
	pcOperand := `\(?.*\.Paths\[.*\]\.Permissions\.CapabilitiesBitmap\)?`
	denyEdges := func(operand string, set bool) []eng.Edge {
		return append(eng.CondEdges(f, `^0 < \(?`+operand+` & `+deny+`\)?$`, set),
			eng.CondEdges(f, `^\(?`+operand+` & `+deny+`\)? == 0$`, !set)...)
	}
	denyGuard := func(what, operand string, set bool) eng.Guard {
		return eng.Guard{Desc: fmt.Sprintf("[%s has the deny bit]=%v", what, set), Edges: denyEdges(operand, set)}
	}
	if c.Floor(f, "bitmap union store", len(union), 1) {
		c.Cut(f, "existing |= new", union, denyGuard("accumulated bitmap", exOperand, false), nil)
		c.Cut(f, "existing |= new", union, denyGuard("new rule's bitmap", pcOperand, false), nil)
		for _, st := range union {
			s := eng.ExprDeep(st.(*ssa.Store).Val)
			if strings.Contains(s, ".Paths[") && strings.Contains(s, ".Permissions.CapabilitiesBitmap") {
				c.OK(f, "union operand", st.Pos(), s)
			} else {
				c.Violation(f, "union operand", st.Pos(), "the union does not include the new rule's bitmap: "+s, nil)
			}
		}
	}
	if c.Floor(f, "deny store", len(denyStore), 1) {
		c.Cut(f, "existing = deny", denyStore, denyGuard("new rule's bitmap", pcOperand, true), nil)
	}
	// existing deny: no store into the existing permissions at all on that edge
	c.Clause("R4", "C03.3")
	ed := denyEdges(exOperand, true)
	if len(ed) == 0 {
		c.Violation(f, "sticky deny", f.Pos(), "NewACL no longer tests whether the accumulated permissions already deny", nil)
	} else {
		var writes []ssa.Instruction
		for _, st := range eng.Stores(f, `\.\(\*policy\.ACLPermissions\)\.\w+$`) {
			writes = append(writes, st)
		}
		loopHdr := eng.EdgeIfs(eng.CondEdges(f, `rangeindex.*len\(.*\.Paths\)\)?$`, true))
		if h := eng.Reach(eng.Query{Fn: f, StartEdges: ed, Barriers: loopHdr, Target: eng.IsTarget(writes)}); h != nil {
			c.Violation(f, "sticky deny", h.Instr.Pos(), "after an accumulated deny the same iteration can still modify the accumulated permissions", h.Witness)
		} else {
			c.OK(f, "sticky deny", ed[0].From.Instrs[len(ed[0].From.Instrs)-1].Pos(), "an accumulated deny skips the rest of the merge for this rule")
		}
	}
	// new deny: parameter maps are dropped
	c.Clause("R4", "C03.3")
	pd := denyEdges(pcOperand, true)
	for _, fld := range []string{"AllowedParameters", "DeniedParameters"} {
		var nils []ssa.Instruction
		for _, st := range eng.Stores(f, `\.\(\*policy\.ACLPermissions\)\.`+fld+`$`) {
			if eng.IsNilConst(st.Val) {
				nils = append(nils, st)
			}
		}
		ins := gcIns(f, `go-radix\.Tree\)\.Insert$`)
		if len(pd) > 0 {
			if h := eng.Reach(eng.Query{Fn: f, StartEdges: pd, Barriers: nils, Target: eng.IsTarget(ins)}); h != nil {
				c.Violation(f, "deny drops "+fld, h.Instr.Pos(), "a denying rule is merged without clearing "+fld, h.Witness)
			} else {
				c.OK(f, "deny drops "+fld, pd[0].From.Instrs[len(pd[0].From.Instrs)-1].Pos(), fld+" cleared before the entry is re-inserted")
			}
		}
	}
	// the same tree is used for lookup and insert
	c.Clause("R5", "C03.3")
	for _, ins := range eng.Calls(f, `go-radix\.Tree\)\.Insert$`) {
		c.Prov(f, "tree a rule is inserted into", ins, ins.Common().Args[0], `^call:github\.com/armon/go-radix\.New$`, `^const:nil$`)
		s := eng.ExprDeep(ins.Common().Args[1])
		if strings.HasSuffix(s, "pc.Path") || strings.Contains(s, ".Path") {
			c.OK(f, "rule inserted under its own pattern", ins.Pos(), s)
		} else {
			c.Violation(f, "rule inserted under its own pattern", ins.Pos(), "insert key "+s, nil)
		}
	}
}

// c03Comparator enumerates the paths of the `less` closure.
func c03Comparator(c *eng.Ctx) {
	f := c.Fn("policy.(*ACL).CheckAllowedFromNonExactPaths")
	if f == nil {
		return
	}
	c.Clause("R7", "C03.4")
	var less *ssa.Function
	for _, s := range eng.Calls(f, `^sort\.Slice$`) {
		if mc, ok := s.Common().Args[1].(*ssa.MakeClosure); ok {
			less = mc.Fn.(*ssa.Function)
		}
	}
	if less == nil {
		c.Undecided(f, "priority comparator", f.Pos(), "sort.Slice with a closure literal not found; the priority order is decided elsewhere — re-read")
		return
	}
	// Exhaustive evaluation over the abstract domain: for each of the five keys the
	// relation between element i and element j (booleans: the pair of values);
	// 3*4*3*3*3 = 324 orderings. The closure's CFG is interpreted on each and
	// compared with the documented lexicographic order. Nothing is executed.
	ni, nj := "", ""
	for _, st := range eng.Stores(less, `.*`) {
		v := eng.Expr(st.Val)
		if a, ok := st.Addr.(*ssa.Alloc); ok {
			if strings.HasSuffix(v, "[i]") {
				ni = eng.VarName(a)
			}
			if strings.HasSuffix(v, "[j]") {
				nj = eng.VarName(a)
			}
		}
	}
	if ni == "" || nj == "" {
		c.Undecided(less, "comparator operands", less.Pos(), "cannot identify the two elements being compared (copies of candidates[i] and candidates[j])")
		return
	}
	type absState struct {
		fw, wc, ln, tx int // -1: i<j, 0: equal, 1: i>j
		pi, pj         bool
	}
	keyOf := map[string]string{"firstWCOrGlob": "fw", "wildcards": "wc", "wcPath": "tx"}
	evalCond := func(base string, st absState) (val bool, ok bool) {
		rel := func(k string) (int, bool) {
			switch k {
			case "fw":
				return st.fw, true
			case "wc":
				return st.wc, true
			case "ln":
				return st.ln, true
			case "tx":
				return st.tx, true
			}
			return 0, false
		}
		if base == "&"+ni+".isPrefix" {
			return st.pi, true
		}
		if base == "&"+nj+".isPrefix" {
			return st.pj, true
		}
		parts := strings.Split(base, " < ")
		if len(parts) != 2 {
			return false, false
		}
		side := func(s string) (who, key string, ok bool) {
			isLen := strings.HasPrefix(s, "len(") && strings.HasSuffix(s, ")")
			if isLen {
				s = s[4 : len(s)-1]
			}
			for _, w := range []string{ni, nj} {
				pre := "&" + w + "."
				if strings.HasPrefix(s, pre) {
					fld := s[len(pre):]
					k, known := keyOf[fld]
					if isLen && fld == "wcPath" {
						k, known = "ln", true
					}
					if !known {
						return "", "", false
					}
					return w, k, true
				}
			}
			return "", "", false
		}
		lw, lk, ok1 := side(parts[0])
		rw, rk, ok2 := side(parts[1])
		if !ok1 || !ok2 || lk != rk || lw == rw {
			return false, false
		}
		r, _ := rel(lk)
		if lw == ni { // key(i) < key(j)
			return r < 0, true
		}
		return r > 0, true // key(j) < key(i)
	}
	run := func(st absState) (string, bool) {
		b := less.Blocks[0]
		for steps := 0; steps < 200; steps++ {
			for _, in := range b.Instrs {
				if r, ok := in.(*ssa.Return); ok {
					return eng.Expr(r.Results[0]), true
				}
			}
			ifi := eng.IfOf(b)
			if ifi == nil {
				if len(b.Succs) != 1 {
					return "", false
				}
				b = b.Succs[0]
				continue
			}
			nc := eng.Normalize(ifi.Cond)
			v, ok := evalCond(nc.Base, st)
			if !ok {
				return "cond:" + nc.Base, false
			}
			if v == nc.Pol {
				b = b.Succs[0]
			} else {
				b = b.Succs[1]
			}
		}
		return "", false
	}
	ref := func(st absState) string {
		switch {
		case st.fw != 0:
			return fmt.Sprint(st.fw < 0)
		case st.pi != st.pj:
			return fmt.Sprint(st.pi)
		case st.wc != 0:
			return fmt.Sprint(st.wc > 0)
		case st.ln != 0:
			return fmt.Sprint(st.ln < 0)
		case st.tx != 0:
			return fmt.Sprint(st.tx < 0)
		}
		return "false"
	}
	n, bad := 0, ""
	for _, fw := range []int{-1, 0, 1} {
		for _, wc := range []int{-1, 0, 1} {
			for _, ln := range []int{-1, 0, 1} {
				for _, tx := range []int{-1, 0, 1} {
					for _, pi := range []bool{false, true} {
						for _, pj := range []bool{false, true} {
							st := absState{fw, wc, ln, tx, pi, pj}
							got, ok := run(st)
							n++
							if !ok {
								c.Undecided(less, "comparator shape", less.Pos(), "the comparator contains a test outside the five documented keys or an unrecognised idiom: "+got)
								return
							}
							if want := ref(st); got != want && bad == "" {
								bad = fmt.Sprintf("for firstWildcard rel=%d, isPrefix=(%v,%v), wildcards rel=%d, length rel=%d, text rel=%d the comparator answers less=%s, the documented order says %s", fw, pi, pj, wc, ln, tx, got, want)
							}
						}
					}
				}
			}
		}
	}
	if bad != "" {
		c.Violation(less, "comparator = documented lexicographic order", less.Pos(), bad, nil)
	} else {
		c.OK(less, "comparator = documented lexicographic order", less.Pos(), fmt.Sprintf("all %d abstract orderings of (first wildcard position, prefix-ness, wildcard count, length, text) agree with the documented priority", n))
	}
	// the element taken after sorting is the last one
	c.Clause("R5", "C03.4")
	sorted := false
	for _, r := range eng.Returns(f) {
		s := eng.ExprDeep(r.Results[0])
		if strings.Contains(s, "[(len(") && strings.Contains(s, ") - 1)]") && strings.HasSuffix(s, ".perms") || strings.Contains(s, "- 1].perms") {
			sorted = true
			c.OK(f, "greatest element wins", r.Pos(), s)
		}
	}
	if !sorted {
		c.Violation(f, "greatest element wins", f.Pos(), "the result is no longer the last element of the sorted candidate list", nil)
	}
	c.Clause("R3", "C03.4")
	var lastRets []ssa.Instruction
	for _, r := range eng.Returns(f) {
		if strings.Contains(eng.ExprDeep(r.Results[0]), "- 1") {
			lastRets = append(lastRets, r)
		}
	}
	c.Before(f, "sort.Slice(candidates, less)", gcIns(f, `^sort\.Slice$`), "return of the last candidate", lastRets)
}

// c03Ownership: the ACL owns everything it mutates.
func c03Ownership(c *eng.Ctx) { aclOwnership(c, "C03.6") }

// aclOwnership is shared with C02 (a token must be judged by its own policies only).
func aclOwnership(c *eng.Ctx, clause string) {
	f := c.Fn("policy.NewACL")
	if f == nil {
		return
	}
	c.Clause("R5", clause)
	owned := []string{
		`^call:policy\.\(\*ACLPermissions\)\.Clone#0$`,
		`^call:github\.\(\*com/armon/go-radix\.Tree\)\.Get#0$`, // already in the ACL's own tree
		`^other:.*segmentWildcardPaths\[.*\]#0$`,               // already in the ACL's own map
		`^op:.*segmentWildcardPaths`,
	}
	n := 0
	for _, ins := range eng.Calls(f, `go-radix\.Tree\)\.Insert$`) {
		n++
		c.Prov(f, "permissions object inserted into the ACL", ins, ins.Common().Args[2], owned...)
	}
	for _, in := range eng.Instrs(f, func(in ssa.Instruction) bool {
		mu, ok := in.(*ssa.MapUpdate)
		return ok && strings.HasSuffix(eng.Expr(mu.Map), ".segmentWildcardPaths")
	}) {
		n++
		c.Prov(f, "permissions object inserted into the ACL", in, in.(*ssa.MapUpdate).Value, owned...)
	}
	c.Floor(f, "insertions into the ACL", n, 4)
	// map-typed fields are only assigned deep copies (or nil)
	for _, fld := range []string{"AllowedParameters", "DeniedParameters"} {
		for _, st := range eng.Stores(f, `\.`+fld+`$`) {
			if strings.Contains(eng.Expr(st.Addr), "].Permissions.") {
				c.Violation(f, "policy object left untouched", st.Pos(), "NewACL writes into the policy's own permissions: "+eng.InstrStr(st), nil)
				continue
			}
			c.Prov(f, "map assigned to the ACL's "+fld, st, st.Val, `^call:github\.com/mitchellh/copystructure\.Copy#0$`, `^const:nil$`)
		}
	}
	// every map mutated in place belongs to an ACL-owned permissions object
	for _, in := range eng.Instrs(f, func(in ssa.Instruction) bool { _, ok := in.(*ssa.MapUpdate); return ok }) {
		mu := in.(*ssa.MapUpdate)
		s := eng.Expr(mu.Map)
		switch {
		case strings.HasSuffix(s, ".segmentWildcardPaths"):
		case strings.Contains(s, ".Paths[") && strings.Contains(s, "].Permissions."):
			c.Violation(f, "in-place map update", in.Pos(), "NewACL writes into a map of the policy object ("+s+"): cached policies are shared between tokens, so later decisions would depend on earlier ACL builds", nil)
		default:
			// X.AllowedParameters[...] = ... with X an owned object
			if fa, ok := loadedFieldAddr(mu.Map); ok {
				c.Prov(f, "owner of the map updated in place ("+eng.FieldVar(fa).Name()+")", in, fa.X, owned...)
			} else {
				c.OK(f, "in-place map update", in.Pos(), s)
			}
		}
	}
	// Clone really deep-copies
	if cl := c.Fn("policy.(*ACLPermissions).Clone"); cl != nil {
		c.Clause("R5", clause)
		for _, r := range eng.SuccessReturns(cl, 1) {
			ret := r.(*ssa.Return)
			if !eng.IsNilConst(ret.Results[0]) {
				c.Prov(cl, "result of ACLPermissions.Clone", ret, ret.Results[0], `^call:github\.com/mitchellh/copystructure\.Copy#0$`, `^alloc:`)
			}
		}
		if len(eng.Calls(cl, `copystructure\.Copy$`)) == 0 {
			c.Violation(cl, "deep copy", cl.Pos(), "Clone no longer deep-copies through copystructure", nil)
		}
	}
	// the policy store hands out the cached objects: therefore NewACL must not keep references (documented here so the reason for the rule is visible)
	c.Notes = append(c.Notes, "policy.Store.GetPolicy returns the *Policy cached in tokenPoliciesLRU; every ACL built from it shares that object")
}

func loadedFieldAddr(v ssa.Value) (*ssa.FieldAddr, bool) {
	u, ok := v.(*ssa.UnOp)
	if !ok {
		return nil, false
	}
	fa, ok := u.X.(*ssa.FieldAddr)
	return fa, ok
}

var capCaseRe = regexpMust(`^φ?cap(?:\{.*\})? == "(\w+)"$|^next\(.*\)#\d == "(\w+)"$|== "(deny|create|read|update|delete|list|sudo|patch|scan)"$`)
