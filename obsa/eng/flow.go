package eng

import (
	"go/token"
	"regexp"

	"golang.org/x/tools/go/ssa"
)

// HeldFunc tells whether the lock is held on *every* path reaching in.
type HeldFunc func(in ssa.Instruction) bool

// MustHold computes, by forward dataflow with intersection at joins, the
// program points of fn at which a lock is certainly held. acquire/release
// classify call instructions; a deferred release does not release before the
// function exits.
func MustHold(fn *ssa.Function, acquire, release func(c ssa.CallInstruction) bool) HeldFunc {
	n := len(fn.Blocks)
	in := make([]int8, n) // -1 unknown(top), 0 not held, 1 held
	out := make([]int8, n)
	for i := range in {
		in[i], out[i] = -1, -1
	}
	transfer := func(b *ssa.BasicBlock, st int8) int8 {
		for _, ins := range b.Instrs {
			c, ok := ins.(ssa.CallInstruction)
			if !ok {
				continue
			}
			if _, isDefer := ins.(*ssa.Defer); isDefer {
				continue
			}
			if _, isGo := ins.(*ssa.Go); isGo {
				continue
			}
			if acquire(c) {
				st = 1
			} else if release(c) {
				st = 0
			}
		}
		return st
	}
	in[0] = 0
	changed := true
	for changed {
		changed = false
		for _, b := range fn.Blocks {
			var st int8 = -1
			if b.Index == 0 {
				st = 0
			} else {
				for _, p := range b.Preds {
					o := out[p.Index]
					if o == -1 {
						continue
					}
					if st == -1 {
						st = o
					} else if st != o {
						st = 0
					}
				}
			}
			if st == -1 {
				continue
			}
			no := transfer(b, st)
			if in[b.Index] != st || out[b.Index] != no {
				in[b.Index], out[b.Index] = st, no
				changed = true
			}
		}
	}
	return func(at ssa.Instruction) bool {
		b := at.Block()
		st := in[b.Index]
		if st == -1 {
			return true // unreachable code
		}
		for _, ins := range b.Instrs {
			if ins == at {
				return st == 1
			}
			c, ok := ins.(ssa.CallInstruction)
			if !ok {
				continue
			}
			if _, isDefer := ins.(*ssa.Defer); isDefer {
				continue
			}
			if acquire(c) {
				st = 1
			} else if release(c) {
				st = 0
			}
		}
		return st == 1
	}
}

// LockCall builds a classifier: call to a method named one of `methods`
// (e.g. Lock, RLock) whose receiver/first operand renders matching pat.
func LockCall(pat string, methods ...string) func(c ssa.CallInstruction) bool {
	re := regexp.MustCompile(pat)
	ms := map[string]bool{}
	for _, m := range methods {
		ms[m] = true
	}
	return func(c ssa.CallInstruction) bool {
		cc := c.Common()
		var name string
		var recv ssa.Value
		if cc.IsInvoke() {
			name, recv = cc.Method.Name(), cc.Value
		} else if f := cc.StaticCallee(); f != nil && f.Signature.Recv() != nil && len(cc.Args) > 0 {
			name, recv = f.Name(), cc.Args[0]
		} else {
			return false
		}
		if !ms[name] {
			return false
		}
		return re.MatchString(ExprDeep(recv))
	}
}

// ---------------------------------------------------------------------------

// ReachingStores returns the values that may be the content of local a when
// instruction `at` executes (flow-sensitive over direct stores). A nil entry
// means "the zero value / not yet stored". escaped reports whether a's
// address is also captured by a closure or passed to a call (then other
// writers may exist and the caller must treat the result as a lower bound).
func ReachingStores(a *ssa.Alloc, at ssa.Instruction) (vals []ssa.Value, escaped bool) {
	fn := a.Parent()
	stores := map[ssa.Instruction]bool{}
	if refs := a.Referrers(); refs != nil {
		for _, r := range *refs {
			switch x := r.(type) {
			case *ssa.Store:
				if x.Addr == a {
					stores[x] = true
				} else {
					escaped = true
				}
			case *ssa.UnOp:
				if x.Op != token.MUL {
					escaped = true
				}
			case *ssa.MakeClosure, ssa.CallInstruction:
				escaped = true
			case *ssa.DebugRef:
			default:
				escaped = true
			}
		}
	}
	type set map[*ssa.Store]bool
	n := len(fn.Blocks)
	inS := make([]set, n)
	outS := make([]set, n)
	zeroIn := make([]bool, n) // zero value may reach block entry
	zeroOut := make([]bool, n)
	visited := make([]bool, n)
	transfer := func(b *ssa.BasicBlock, s set, z bool, upto ssa.Instruction) (set, bool) {
		cur := set{}
		for k := range s {
			cur[k] = true
		}
		for _, ins := range b.Instrs {
			if ins == upto {
				break
			}
			if st, ok := ins.(*ssa.Store); ok && stores[st] {
				cur = set{st: true}
				z = false
			}
		}
		return cur, z
	}
	zeroIn[0] = true
	visited[0] = true
	inS[0] = set{}
	changed := true
	for changed {
		changed = false
		for _, b := range fn.Blocks {
			if b.Index != 0 {
				s := set{}
				z := false
				any := false
				for _, p := range b.Preds {
					if outS[p.Index] == nil {
						continue
					}
					any = true
					for k := range outS[p.Index] {
						s[k] = true
					}
					z = z || zeroOut[p.Index]
				}
				if !any {
					continue
				}
				inS[b.Index], zeroIn[b.Index] = s, z
			}
			o, z := transfer(b, inS[b.Index], zeroIn[b.Index], nil)
			if outS[b.Index] == nil || len(o) != len(outS[b.Index]) || z != zeroOut[b.Index] || !sameSet(o, outS[b.Index]) {
				outS[b.Index], zeroOut[b.Index] = o, z
				changed = true
			}
		}
	}
	b := at.Block()
	if inS[b.Index] == nil {
		return nil, escaped
	}
	s, z := transfer(b, inS[b.Index], zeroIn[b.Index], at)
	// stable order: by block/instr position
	for _, bb := range fn.Blocks {
		for _, ins := range bb.Instrs {
			if st, ok := ins.(*ssa.Store); ok && s[st] {
				vals = append(vals, st.Val)
			}
		}
	}
	if z {
		vals = append(vals, nil)
	}
	return vals, escaped
}

func sameSet[K comparable](a, b map[K]bool) bool {
	if len(a) != len(b) {
		return false
	}
	for k := range a {
		if !b[k] {
			return false
		}
	}
	return true
}

// ReturnVals resolves result i of a Return to the values it may carry: the
// operand itself, or — for named results spilled to a local because the
// function defers — the stores reaching the return.
func ReturnVals(r *ssa.Return, i int) (vals []ssa.Value, viaLocal bool, escaped bool) {
	op := r.Results[i]
	if u, ok := op.(*ssa.UnOp); ok && u.Op == token.MUL {
		if a, ok := u.X.(*ssa.Alloc); ok {
			v, esc := ReachingStores(a, u)
			return v, true, esc
		}
	}
	return []ssa.Value{op}, false, false
}

// IsNilConst: v is the nil/zero constant (nil entry from ReachingStores counts).
func IsNilConst(v ssa.Value) bool {
	if v == nil {
		return true
	}
	c, ok := v.(*ssa.Const)
	return ok && c.Value == nil
}

// AllNilThroughPhi: every leaf of v through phis is the nil constant.
func AllNilThroughPhi(v ssa.Value) bool {
	seen := map[ssa.Value]bool{}
	var walk func(v ssa.Value) bool
	walk = func(v ssa.Value) bool {
		if v == nil {
			return true
		}
		if seen[v] {
			return true
		}
		seen[v] = true
		if p, ok := v.(*ssa.Phi); ok {
			for _, e := range p.Edges {
				if !walk(e) {
					return false
				}
			}
			return true
		}
		return IsNilConst(v)
	}
	return walk(v)
}
