package eng

import (
	"encoding/json"
	"fmt"
	"go/token"
	"os"
	"path/filepath"
	"sort"
	"strings"

	"golang.org/x/tools/go/ssa"
)

type Status string

const (
	Discharged Status = "discharged"
	Violated   Status = "violated"
	Undecided  Status = "undecided"
)

// Obligation is one (rule instance x matched site) with its verdict.
type Obligation struct {
	Property string   `json:"property"`
	Rule     string   `json:"rule"`   // rule kind, e.g. R2
	Clause   string   `json:"clause"` // e.g. C02.1a
	Func     string   `json:"func"`   // enclosing function anchor
	Site     string   `json:"site"`   // site descriptor (no line numbers)
	Pos      string   `json:"pos"`    // file:line, for the reader only
	Status   Status   `json:"status"`
	Fact     string   `json:"fact"` // what was established / what failed
	Witness  []string `json:"witness,omitempty"`
	Known    bool     `json:"known_finding,omitempty"`
}

func (o *Obligation) Key() string { return o.Rule + "|" + o.Func + "|" + o.Site }

type Finding struct {
	Status   string `json:"status"` // known | fixed
	Property string `json:"property"`
	Rule     string `json:"rule"`
	Func     string `json:"func"`
	Site     string `json:"site"`
	Commit   string `json:"commit,omitempty"`
	What     string `json:"what"`
}

type Findings struct {
	Findings []Finding `json:"findings"`
}

func LoadFindings(path string) (*Findings, error) {
	var f Findings
	b, err := os.ReadFile(path)
	if err != nil {
		if os.IsNotExist(err) {
			return &f, nil
		}
		return nil, err
	}
	if err := json.Unmarshal(b, &f); err != nil {
		return nil, err
	}
	return &f, nil
}

// Ctx collects the obligations of one property run.
type Ctx struct {
	Prop       string
	P          *Prog
	Obls       []*Obligation
	Exceptions []map[string]string
	Notes      []string
	cur        struct{ rule, clause string }
}

func NewCtx(prop string, p *Prog) *Ctx { return &Ctx{Prop: prop, P: p} }

// Clause sets the rule kind and clause id that following obligations belong to.
func (c *Ctx) Clause(rule, clause string) *Ctx {
	c.cur.rule, c.cur.clause = rule, clause
	return c
}

func (c *Ctx) add(st Status, fn *ssa.Function, site string, pos token.Pos, fact string, w []string) *Obligation {
	o := &Obligation{Property: c.Prop, Rule: c.cur.rule, Clause: c.cur.clause, Func: FuncName(fn), Site: site, Status: st, Fact: fact, Witness: w}
	if fn != nil {
		if !pos.IsValid() {
			pos = fn.Pos()
		}
		o.Pos = c.P.Pos(pos)
	}
	c.Obls = append(c.Obls, o)
	return o
}

func (c *Ctx) OK(fn *ssa.Function, site string, pos token.Pos, fact string) {
	c.add(Discharged, fn, site, pos, fact, nil)
}

func (c *Ctx) Violation(fn *ssa.Function, site string, pos token.Pos, fact string, w []string) {
	c.add(Violated, fn, site, pos, fact, w)
}

func (c *Ctx) Undecided(fn *ssa.Function, site string, pos token.Pos, fact string) {
	c.add(Undecided, fn, site, pos, fact, nil)
}

// AddOpen records an open obligation found under another build configuration.
func (c *Ctx) AddOpen(key, status, clause, pos, fact string) {
	parts := strings.SplitN(key, "|", 3)
	for len(parts) < 3 {
		parts = append(parts, "")
	}
	st := Violated
	if status == string(Undecided) {
		st = Undecided
	}
	c.Obls = append(c.Obls, &Obligation{Property: c.Prop, Rule: parts[0], Clause: clause, Func: parts[1], Site: parts[2], Pos: pos, Status: st, Fact: fact})
}

// Unresolved records an anchor that no longer resolves.
func (c *Ctx) Unresolved(what string) {
	o := &Obligation{Property: c.Prop, Rule: c.cur.rule, Clause: c.cur.clause, Func: what, Site: "anchor", Status: Undecided,
		Fact: "anchor-unresolved: " + what + " does not resolve in the current tree; the rule cannot be evaluated (a rule silently matching nothing is not allowed)"}
	c.Obls = append(c.Obls, o)
}

// Floor fails when fewer sites matched than were confirmed by reading.
func (c *Ctx) Floor(fn *ssa.Function, what string, got, min int) bool {
	if got < min {
		c.add(Undecided, fn, "floor:"+what, token.NoPos, fmt.Sprintf("rule went vacuous: matched %d site(s) for %s, expected at least %d", got, what, min), nil)
		return false
	}
	return true
}

func (c *Ctx) Exception(symbol, reason string) {
	c.Exceptions = append(c.Exceptions, map[string]string{"symbol": symbol, "reason": reason})
}

// Fn resolves a function anchor, recording an unresolved-anchor failure if absent.
func (c *Ctx) Fn(short string) *ssa.Function {
	f := c.P.Func(short)
	if f == nil {
		c.Unresolved(short)
	}
	return f
}

// ---------------------------------------------------------------------------

type RuleStat struct {
	ID          string `json:"id"`
	Clauses     int    `json:"clauses"`
	Obligations int    `json:"obligations"`
	Discharged  int    `json:"discharged"`
	Violated    int    `json:"violated"`
	Undecided   int    `json:"undecided"`
}

type Result struct {
	Exit       int
	Violations int
	Lines      []string
}

// Finish triages against the known findings, prints verdict lines, writes
// evidence and violation files. Returns the process exit code.
func (c *Ctx) Finish(verifDir, tier string, seed int64, wall float64, explanation string, assumptions []string, extra map[string]any) int {
	kf, err := LoadFindings(filepath.Join(verifDir, "known_findings.json"))
	if err != nil {
		fmt.Printf("VIOLATION property=%s replay=%s\n", c.Prop, filepath.Join(verifDir, "known_findings.json"))
		fmt.Println("cannot read known_findings.json:", err)
		return 1
	}
	known := map[string]Finding{}
	for _, f := range kf.Findings {
		if f.Status == "known" && f.Property == c.Prop {
			known[f.Rule+"|"+f.Func+"|"+f.Site] = f
		}
	}
	vdir := filepath.Join(verifDir, "violations")
	os.MkdirAll(vdir, 0o755)
	old, _ := filepath.Glob(filepath.Join(vdir, c.Prop+"-*.json"))
	for _, f := range old {
		os.Remove(f)
	}
	stats := map[string]*RuleStat{}
	clauses := map[string]map[string]bool{}
	nviol := 0
	knownHit := []string{}
	distinct := map[string]bool{}
	for _, o := range c.Obls {
		rs := stats[o.Rule]
		if rs == nil {
			rs = &RuleStat{ID: o.Rule}
			stats[o.Rule] = rs
			clauses[o.Rule] = map[string]bool{}
		}
		clauses[o.Rule][o.Clause] = true
		rs.Obligations++
		distinct[o.Rule+"|"+o.Func+"|"+o.Clause] = true
		if os.Getenv("OBSA_LIST") != "" {
			// debugging aid: print every obligation
			fmt.Printf("OBL %s %s %s %s [%s] %s :: %s\n", o.Status, o.Rule, o.Clause, o.Func, o.Site, o.Pos, o.Fact)
		}
		switch o.Status {
		case Discharged:
			rs.Discharged++
		case Violated, Undecided:
			if o.Status == Violated {
				rs.Violated++
			} else {
				rs.Undecided++
			}
			if f, ok := known[o.Key()]; ok && o.Status == Violated {
				o.Known = true
				knownHit = append(knownHit, o.Key())
				fmt.Printf("KNOWN-FINDING: property=%s %s %s [%s] %s — %s\n", c.Prop, o.Rule, o.Func, o.Site, o.Pos, f.What)
				continue
			}
			nviol++
			path := filepath.Join(vdir, fmt.Sprintf("%s-%d.json", c.Prop, nviol))
			b, _ := json.MarshalIndent(o, "", "  ")
			os.WriteFile(path, b, 0o644)
			fmt.Printf("VIOLATION property=%s replay=%s\n", c.Prop, path)
			fmt.Printf("  %s %s %s: %s [%s] at %s\n    %s\n", o.Status, o.Rule, o.Clause, o.Func, o.Site, o.Pos, o.Fact)
			for _, w := range o.Witness {
				fmt.Printf("      %s\n", w)
			}
		}
	}
	var rules []*RuleStat
	for id, rs := range stats {
		rs.Clauses = len(clauses[id])
		rules = append(rules, rs)
	}
	sort.Slice(rules, func(i, j int) bool { return rules[i].ID < rules[j].ID })
	total, disch := 0, 0
	for _, rs := range rules {
		total += rs.Obligations
		disch += rs.Discharged
	}
	// samples: rotate by seed
	var samples []map[string]string
	n := len(c.Obls)
	if n > 0 {
		start := int(seed % int64(n))
		if start < 0 {
			start = -start
		}
		for k := 0; k < n && len(samples) < 12; k++ {
			o := c.Obls[(start+k*7)%n]
			samples = append(samples, map[string]string{"rule": o.Rule, "clause": o.Clause, "func": o.Func, "site": o.Site, "pos": o.Pos, "status": string(o.Status), "fact": o.Fact})
		}
	}
	funcs := map[string]bool{}
	for _, o := range c.Obls {
		funcs[o.Func] = true
	}
	var fl []string
	for f := range funcs {
		fl = append(fl, f)
	}
	sort.Strings(fl)
	if c.Exceptions == nil {
		c.Exceptions = []map[string]string{}
	}
	if c.Notes == nil {
		c.Notes = []string{}
	}
	cov := map[string]any{
		"explanation":                explanation,
		"evaluations":                total,
		"distinct_nontrivial":        len(distinct),
		"rule":                       "one evaluation = one obligation (rule instance x matched site in the current /repo source); distinct_nontrivial = distinct (rule kind, enclosing function, clause) triples with at least one matched site, counted by the checker on this run",
		"obligations":                total,
		"discharged":                 disch,
		"samples":                    samples,
		"packages_loaded":            c.P.NPkgs,
		"functions_with_body":        len(c.P.Funcs),
		"functions_with_obligations": fl,
		"rules":                      rules,
		"known_findings_hit":         knownHit,
		"exceptions_used":            c.Exceptions,
		"notes":                      c.Notes,
		"load_s":                     c.P.LoadSecs,
		"ssa_s":                      c.P.SSASecs,
		"exhaustive":                 false,
	}
	for k, v := range extra {
		cov[k] = v
	}
	ev := map[string]any{
		"property_id": c.Prop,
		"tier":        tier,
		"seed":        seed,
		"level":       "other",
		"coverage":    cov,
		"assumptions": assumptions,
		"wall_s":      wall,
		"violations":  nviol,
	}
	os.MkdirAll(filepath.Join(verifDir, "evidence"), 0o755)
	b, _ := json.MarshalIndent(ev, "", " ")
	if err := os.WriteFile(filepath.Join(verifDir, "evidence", c.Prop+".json"), b, 0o644); err != nil {
		fmt.Println("cannot write evidence:", err)
		return 1
	}
	fmt.Printf("%s %s: %d obligations, %d discharged, %d known finding(s), %d violation(s)/undecided; %d packages, %d functions; %.1fs\n",
		c.Prop, tier, total, disch, len(knownHit), nviol, c.P.NPkgs, len(c.P.Funcs), wall)
	for _, rs := range rules {
		fmt.Printf("  %-4s clauses=%d obligations=%d discharged=%d violated=%d undecided=%d\n", rs.ID, rs.Clauses, rs.Obligations, rs.Discharged, rs.Violated, rs.Undecided)
	}
	if nviol > 0 {
		return 1
	}
	return 0
}

// FailHard is used when the tree cannot even be loaded.
func FailHard(verifDir, prop, tier string, seed int64, wall float64, msg string) int {
	vdir := filepath.Join(verifDir, "violations")
	os.MkdirAll(vdir, 0o755)
	path := filepath.Join(vdir, prop+"-1.json")
	b, _ := json.MarshalIndent(map[string]string{"property": prop, "status": "undecided", "fact": msg}, "", "  ")
	os.WriteFile(path, b, 0o644)
	fmt.Printf("VIOLATION property=%s replay=%s\n", prop, path)
	fmt.Println("  " + strings.ReplaceAll(msg, "\n", "\n  "))
	ev := map[string]any{
		"property_id": prop, "tier": tier, "seed": seed, "level": "other",
		"coverage": map[string]any{"explanation": "the repository could not be loaded/type-checked; nothing was decided: " + msg, "evaluations": 0, "distinct_nontrivial": 0},
		"wall_s":   wall, "violations": 1,
	}
	os.MkdirAll(filepath.Join(verifDir, "evidence"), 0o755)
	eb, _ := json.MarshalIndent(ev, "", " ")
	os.WriteFile(filepath.Join(verifDir, "evidence", prop+".json"), eb, 0o644)
	return 1
}
