package eng

// Anonymous functions are anchors too ("vault.(*ExpirationManager).Register$1"),
// but go/ssa numbers them by order of appearance in the enclosing function, so
// an unrelated closure added in front of an anchored one would shift every
// number behind it. closures.json (written by `obsa names`, next to names.json)
// freezes, per top-level function, each anonymous function's number together
// with a descriptor of what it IS — its signature shape and how the enclosing
// function uses it (deferred, returned, started with go, called, passed as
// argument k to callee C, stored to field f). At load time the current
// closures of every such function are aligned with the frozen list (longest
// common subsequence on the descriptor, unmatched runs of equal length paired
// positionally) and every name the rules see — anchor lookups, rendered callee
// names, obligation keys — uses the frozen number. A frozen closure without a
// counterpart stays unresolved (the rule fails as undecided, never silently).

import (
	"encoding/json"
	"fmt"
	"os"
	"path/filepath"
	"sort"
	"strings"

	"golang.org/x/tools/go/ssa"
)

type closDesc struct {
	N string `json:"n"` // "$1", "$2$1": path below the top-level function
	D string `json:"d"` // descriptor
}

// closAlias maps a current anonymous function to the full (ssa String() style)
// name it is known under in the frozen tables, when that differs.
var closAlias map[*ssa.Function]string

// FnString is fn.String() with anonymous-function numbers mapped back to the frozen ones.
func FnString(fn *ssa.Function) string {
	if s, ok := closAlias[fn]; ok {
		return aliasTop(fn, s)
	}
	return aliasTop(fn, fn.String())
}

func closureRoles(parent, child *ssa.Function) string {
	roles := map[string]bool{}
	var useOf func(v ssa.Value, depth int)
	classify := func(user ssa.Instruction, v ssa.Value, depth int) {
		switch u := user.(type) {
		case *ssa.Defer, *ssa.Go, *ssa.Call:
			cc := u.(ssa.CallInstruction).Common()
			kind := "call"
			switch user.(type) {
			case *ssa.Defer:
				kind = "defer"
			case *ssa.Go:
				kind = "go"
			}
			if cc.Value == v {
				roles[kind] = true
				return
			}
			callee := "?"
			if sc := cc.StaticCallee(); sc != nil {
				callee = Short(sc.String())
			} else if cc.IsInvoke() && cc.Method != nil {
				callee = "invoke." + cc.Method.Name()
			}
			for k, a := range cc.Args {
				if a == v {
					roles[fmt.Sprintf("%s-arg:%s:%d", kind, callee, k)] = true
				}
			}
		case *ssa.Return:
			roles["return"] = true
		case *ssa.Store:
			if u.Val == v {
				switch a := u.Addr.(type) {
				case *ssa.FieldAddr:
					roles["store:field:"+fieldNameOf(a)] = true
				case *ssa.Alloc:
					roles["store:local"] = true
					if depth < 2 {
						// a closure kept in a local variable: how is the variable used?
						for _, r := range *a.Referrers() {
							if ld, ok := r.(*ssa.UnOp); ok {
								useOf(ld, depth+1)
							}
						}
					}
				default:
					roles["store"] = true
				}
			}
		case *ssa.MakeInterface:
			useOf(u, depth+1)
		case *ssa.ChangeType:
			useOf(u, depth+1)
		case *ssa.Phi:
			roles["phi"] = true
		case *ssa.MapUpdate:
			roles["mapupdate"] = true
		case *ssa.MakeClosure:
			roles["captured"] = true
		default:
			roles[fmt.Sprintf("%T", user)] = true
		}
	}
	useOf = func(v ssa.Value, depth int) {
		if depth > 3 {
			return
		}
		refs := v.Referrers()
		if refs == nil {
			return
		}
		for _, r := range *refs {
			classify(r, v, depth)
		}
	}
	for _, b := range parent.Blocks {
		for _, in := range b.Instrs {
			if mc, ok := in.(*ssa.MakeClosure); ok && mc.Fn == child {
				useOf(mc, 0)
				continue
			}
			// a closure without free variables is used as a plain function value
			var ops []*ssa.Value
			ops = in.Operands(ops)
			for _, op := range ops {
				if op != nil && *op == ssa.Value(child) {
					classify(in, child, 0)
				}
			}
		}
	}
	var rs []string
	for r := range roles {
		rs = append(rs, r)
	}
	sort.Strings(rs)
	return strings.Join(rs, ",")
}

func fieldNameOf(a *ssa.FieldAddr) string {
	return fieldName(a.X.Type(), a.Field)
}

func closureDescriptor(parent, child *ssa.Function) string {
	// captured variables by type (sorted): two closures of the same shape and use are told apart by what they capture
	var fv []string
	for _, v := range child.FreeVars {
		fv = append(fv, typeShape(v.Type(), 0))
	}
	sort.Strings(fv)
	return typeShape(child.Signature, 0) + "|" + closureRoles(parent, child) + "|" + strings.Join(fv, ",")
}

func realAnon(fn *ssa.Function) []*ssa.Function {
	var out []*ssa.Function
	for _, a := range fn.AnonFuncs {
		if a.Synthetic == "" {
			out = append(out, a)
		}
	}
	return out
}

// ClosuresSnapshot is what `obsa names` writes to closures.json.
func (p *Prog) ClosuresSnapshot() map[string][]closDesc {
	out := map[string][]closDesc{}
	for _, fn := range p.Funcs {
		if fn.Parent() != nil || fn.Synthetic != "" || len(fn.AnonFuncs) == 0 {
			continue
		}
		var list []closDesc
		var walk func(par *ssa.Function)
		walk = func(par *ssa.Function) {
			for _, ch := range par.AnonFuncs {
				list = append(list, closDesc{N: strings.TrimPrefix(ch.String(), fn.String()), D: closureDescriptor(par, ch)})
				walk(ch)
			}
		}
		walk(fn)
		out[fn.String()] = list
	}
	return out
}

func (p *Prog) loadClosureAliases() {
	closAlias = map[*ssa.Function]string{}
	if NamesFile == "" {
		return
	}
	b, err := os.ReadFile(filepath.Join(filepath.Dir(NamesFile), "closures.json"))
	if err != nil {
		return
	}
	var snap map[string][]closDesc
	if json.Unmarshal(b, &snap) != nil {
		return
	}
	for _, fn := range p.Funcs {
		if fn.Parent() != nil || len(fn.AnonFuncs) == 0 {
			continue
		}
		frozen, ok := snap[aliasTop(fn, fn.String())]
		if !ok {
			continue
		}
		// frozen children of a frozen name, in order
		kids := map[string][]closDesc{}
		for _, d := range frozen {
			i := strings.LastIndex(d.N, "$")
			kids[d.N[:i]] = append(kids[d.N[:i]], d)
		}
		taken := map[string]bool{}
		for _, d := range frozen {
			taken[d.N] = true
		}
		var align func(cur *ssa.Function, frozenSuffix string)
		align = func(cur *ssa.Function, frozenSuffix string) {
			cs := cur.AnonFuncs
			fs := kids[frozenSuffix]
			cd := make([]string, len(cs))
			for i, ch := range cs {
				cd[i] = closureDescriptor(cur, ch)
			}
			fd := make([]string, len(fs))
			for i, d := range fs {
				fd[i] = d.D
			}
			m := alignSeq(cd, fd) // current index -> frozen index or -1
			fresh := 0
			for i, ch := range cs {
				var suffix string
				if m[i] >= 0 {
					suffix = fs[m[i]].N
				} else {
					// no frozen counterpart: a name no frozen closure carries
					for {
						fresh++
						suffix = fmt.Sprintf("%s$new%d", frozenSuffix, fresh)
						if !taken[suffix] {
							break
						}
					}
				}
				full := fn.String() + suffix
				if full != ch.String() {
					closAlias[ch] = full
					p.Renames = append(p.Renames, "closure "+Short(ch.String())+" is known to the rules as "+Short(full))
				}
				align(ch, suffix)
			}
		}
		align(fn, "")
	}
}

// alignSeq aligns cur with old: result[i] = index in old matched with cur[i], or -1.
// Longest common subsequence on equality; unmatched runs of equal length between
// two matches are paired positionally (a closure whose use changed keeps its place).
func alignSeq(cur, old []string) []int {
	n, m := len(cur), len(old)
	res := make([]int, n)
	for i := range res {
		res[i] = -1
	}
	l := make([][]int, n+1)
	for i := range l {
		l[i] = make([]int, m+1)
	}
	for i := n - 1; i >= 0; i-- {
		for j := m - 1; j >= 0; j-- {
			if cur[i] == old[j] {
				l[i][j] = l[i+1][j+1] + 1
			} else if l[i+1][j] >= l[i][j+1] {
				l[i][j] = l[i+1][j]
			} else {
				l[i][j] = l[i][j+1]
			}
		}
	}
	i, j := 0, 0
	pi, pj := 0, 0 // start of the current unmatched runs
	flush := func(ei, ej int) {
		if ei-pi == ej-pj {
			for k := 0; k < ei-pi; k++ {
				res[pi+k] = pj + k
			}
		}
	}
	for i < n && j < m {
		if cur[i] == old[j] {
			flush(i, j)
			res[i] = j
			i++
			j++
			pi, pj = i, j
		} else if l[i+1][j] >= l[i][j+1] {
			i++
		} else {
			j++
		}
	}
	flush(n, m)
	return res
}
