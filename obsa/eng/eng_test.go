package eng

import (
	"os"
	"path/filepath"
	"strings"
	"testing"

	"golang.org/x/tools/go/ssa"
)

// The fixture keeps every rule primitive honest: each has a violating function
// that must be reported and a conforming one that must not. Run by setup_cmd.

func load(t *testing.T) *Prog {
	t.Helper()
	wd, _ := os.Getwd()
	p, err := Load(filepath.Join(wd, "testdata", "fix"), nil, "./...")
	if err != nil {
		t.Fatal(err)
	}
	return p
}

func status(c *Ctx, fn, siteSub string) Status {
	for _, o := range c.Obls {
		if o.Func == fn && strings.Contains(o.Site, siteSub) {
			return o.Status
		}
	}
	return "absent"
}

func TestPrimitives(t *testing.T) {
	p := load(t)
	c := NewCtx("FIX", p)
	get := func(n string) *ssa.Function {
		f := p.Func(n)
		if f == nil {
			t.Fatalf("fixture function %s not found", n)
		}
		return f
	}
	want := func(fn, site string, st Status) {
		t.Helper()
		if got := status(c, fn, site); got != st {
			t.Errorf("%s [%s]: got %s, want %s", fn, site, got, st)
		}
	}

	// R2
	for _, n := range []string{"fix/a.CutOK", "fix/a.CutBad", "fix/a.CutRepeatedOK"} {
		f := get(n)
		c.Clause("R2", "fix")
		c.Cut(f, "sink", AsInstrs(Calls(f, `^fix/a\.sink$`)), G(f, `^fix/a\.check\(\)$`, true), nil)
	}
	want("fix/a.CutOK", "sink", Discharged)
	want("fix/a.CutBad", "sink", Violated)
	want("fix/a.CutRepeatedOK", "sink", Discharged)

	// R4 cleanup
	for _, n := range []string{"(*fix/a.T).CleanupOK", "(*fix/a.T).CleanupBad", "(*fix/a.T).CleanupDeferredOK"} {
		f := get(n)
		c.Clause("R4", "fix")
		puts := Calls(f, `^<fix/a\.Store>\.Put$`)
		if len(puts) != 1 {
			t.Fatalf("%s: %d Put calls", n, len(puts))
		}
		cl := AsInstrs(Calls(f, `^fix/a\.cleanup$`))
		for _, d := range DeferredClosures(f) {
			if len(Calls(d, `^fix/a\.cleanup$`)) > 0 {
				// deferred closure performing the cleanup under the named error: every return runs it
				for _, in := range Instrs(f, func(in ssa.Instruction) bool { _, ok := in.(*ssa.RunDefers); return ok }) {
					cl = append(cl, in)
				}
			}
		}
		c.CleanupOnEdges(f, "Put failed", CallFailEdges(puts[0]), "cleanup", cl)
	}
	want("(*fix/a.T).CleanupOK", "cleanup", Discharged)
	want("(*fix/a.T).CleanupBad", "cleanup", Violated)
	want("(*fix/a.T).CleanupDeferredOK", "cleanup", Discharged)

	// R4 nil result
	for _, n := range []string{"(*fix/a.T).NilOnFailOK", "(*fix/a.T).NilOnFailBad"} {
		f := get(n)
		c.Clause("R4", "fix")
		g := Calls(f, `^<fix/a\.Store>\.Get$`)
		c.NilResultOnEdges(f, "Get failed", CallFailEdges(g[0]), 0, "value")
	}
	want("(*fix/a.T).NilOnFailOK", "Get failed", Discharged)
	want("(*fix/a.T).NilOnFailBad", "Get failed", Violated)

	// R5
	for _, n := range []string{"(*fix/a.T).ProvOK", "(*fix/a.T).ProvBad"} {
		f := get(n)
		c.Clause("R5", "fix")
		put := Calls(f, `^<fix/a\.Store>\.Put$`)[0]
		c.Prov(f, "key", put, put.Common().Args[0], `^param:k$`, `^const:"p/"$`)
	}
	want("(*fix/a.T).ProvOK", "key", Discharged)
	want("(*fix/a.T).ProvBad", "key", Violated)
	for _, n := range []string{"fix/a.LitOK", "fix/a.LitBad"} {
		f := get(n)
		use := Calls(f, `^fix/a\.useEntry$`)[0]
		ks := StructLitField(use.Common().Args[0], "Key")
		if len(ks) != 1 {
			t.Fatalf("%s: StructLitField found %d values", n, len(ks))
		}
		c.Prov(f, "entry key", use, ks[0], `^param:k$`)
	}
	want("fix/a.LitOK", "entry key", Discharged)
	want("fix/a.LitBad", "entry key", Violated)

	// R9
	for _, n := range []string{"(*fix/a.T).LockedOK", "(*fix/a.T).LockedBad"} {
		f := get(n)
		held := MustHold(f, LockCall(`\.mu$`, "Lock"), LockCall(`\.mu$`, "Unlock"))
		s := Calls(f, `^fix/a\.sink$`)[0]
		c.Clause("R9", "fix")
		if held(s) {
			c.OK(f, "locked{sink}", s.Pos(), "held")
		} else {
			c.Violation(f, "locked{sink}", s.Pos(), "not held", nil)
		}
	}
	want("(*fix/a.T).LockedOK", "locked", Discharged)
	want("(*fix/a.T).LockedBad", "locked", Violated)

	// R3
	for _, n := range []string{"(*fix/a.T).OrderOK", "(*fix/a.T).OrderBad"} {
		f := get(n)
		c.Clause("R3", "fix")
		c.Before(f, "durable write", AsInstrs(Calls(f, `^<fix/a\.Store>\.Put$`)), "state switch", AsInstrs(Stores(f, `\.state$`)))
	}
	want("(*fix/a.T).OrderOK", "state switch", Discharged)
	want("(*fix/a.T).OrderBad", "state switch", Violated)

	// R1: direct calls and uses as a value
	m, missing := p.StaticCallee("fix/a.raw")
	if len(missing) > 0 {
		t.Fatal(missing)
	}
	sites := p.FindCalls(m, nil)
	sites = append(sites, p.FuncValueUses("fix/a.raw")...)
	c.Clause("R1", "fix")
	c.CallerTable("raw", sites, map[string]string{"fix/a.Allowed": "the one reviewed caller"}, 1)
	want("fix/a.Allowed", "callers{raw}", Discharged)
	want("fix/a.Rogue", "callers{raw}", Violated)
	want("fix/a.ByValue", "callers{raw}", Violated)
	// ... and a method called through a bound method value (`f := t.rawM; f()` names the wrapper rawM$bound)
	mm, missing := p.StaticCallee("(*fix/a.T).rawM")
	if len(missing) > 0 {
		t.Fatal(missing)
	}
	msites := p.FindCalls(mm, nil)
	msites = append(msites, p.FuncValueUses("(*fix/a.T).rawM")...)
	c.CallerTable("rawM", msites, map[string]string{"(*fix/a.T).AllowedM": "the one reviewed caller"}, 1)
	want("(*fix/a.T).AllowedM", "callers{rawM}", Discharged)
	want("(*fix/a.T).ByBoundValue", "callers{rawM}", Violated)

	// R11
	for _, n := range []string{"(*fix/a.T).ErrCheckedOK", "(*fix/a.T).ErrDropped"} {
		f := get(n)
		c.Clause("R11", "fix")
		c.ErrChecked(f, Calls(f, `^<fix/a\.Store>\.Put$`)[0])
	}
	want("(*fix/a.T).ErrCheckedOK", "errcheck", Discharged)
	want("(*fix/a.T).ErrDropped", "errcheck", Violated)

	// success returns / anchors / floors
	if n := len(SuccessReturns(get("(*fix/a.T).SuccessPaths"), 0)); n != 1 {
		t.Errorf("SuccessReturns: got %d, want 1", n)
	}
	c.Clause("R2", "fix")
	if c.Fn("fix/a.Missing") != nil {
		t.Errorf("missing anchor resolved")
	}
	want("fix/a.Missing", "anchor", Undecided)
	if c.Floor(nil, "nothing", 0, 1) {
		t.Errorf("floor passed vacuously")
	}
}
