package eng

import (
	"go/parser"
	"go/token"
	"strings"
	"testing"
)

func TestRewriteNoDefer(t *testing.T) {
	src := `package p

import "errors"

type T struct{}

func (t *T) f(x int) (n, m int, err error) {
	defer println("done")
	if x < 0 {
		err = errors.New("neg")
		return
	}
	g := func() (k int) { return }
	n = g()
	return x, m, nil
}

// captured by the deferred closure: must be left alone
func h() (err error) {
	defer func() { err = nil }()
	return errors.New("x")
}

// not listed: left alone
func k() (err error) {
	defer println()
	return
}
`
	want := map[string]bool{noDeferKey("d", "T", "f"): true, noDeferKey("d", "", "h"): true}
	out, names := rewriteNoDefer("p.go", []byte(src), "d", want)
	if len(names) != 1 || names[0] != "d.(T).f" {
		t.Fatalf("rewritten: %v", names)
	}
	s := string(out)
	for _, frag := range []string{
		"func (t *T) f(x int) (int, int, error) { var n int; var m int; var err error; _, _, _ = n, m, err;",
		"\t\treturn n, m, err\n",
		"g := func() (k int) { return }",
		"func h() (err error) {",
		"func k() (err error) {",
	} {
		if !strings.Contains(s, frag) {
			t.Errorf("missing %q in\n%s", frag, s)
		}
	}
	if strings.Count(s, "\n") != strings.Count(src, "\n") {
		t.Errorf("line count changed")
	}
	if _, err := parser.ParseFile(token.NewFileSet(), "p.go", out, 0); err != nil {
		t.Errorf("rewritten source does not parse: %v", err)
	}
}
