package eng

import (
	"fmt"
	"go/constant"
	"go/token"
	"go/types"
	"sort"
	"strings"

	"golang.org/x/tools/go/ssa"
)

// Expr renders an SSA value as a canonical expression built from *resolved*
// entities: parameter names, callee objects, field objects, constants' values.
// It is not source text: local variable names, formatting and statement layout
// do not influence it. Rule tables match conditions and operands against it.
func Expr(v ssa.Value) string { return exprD(v, 6, map[ssa.Value]bool{}) }

// ExprDeep renders with call arguments expanded.
func ExprDeep(v ssa.Value) string { return exprD(v, 20, map[ssa.Value]bool{}) }

func calleeName(c *ssa.CallCommon) string {
	if c.IsInvoke() {
		recv := c.Value.Type()
		return "<" + Short(types.TypeString(recv, nil)) + ">." + c.Method.Name()
	}
	switch f := c.Value.(type) {
	case *ssa.Function:
		return FuncName(f)
	case *ssa.Builtin:
		return f.Name()
	case *ssa.MakeClosure:
		return "closure:" + FuncName(f.Fn.(*ssa.Function))
	}
	return "dyn:" + exprD(c.Value, 3, map[ssa.Value]bool{})
}

// CalleeName is the display name of the call's target.
func CalleeName(c *ssa.CallCommon) string { return calleeName(c) }

func constStr(c *ssa.Const) string {
	if c.Value == nil {
		if _, ok := c.Type().Underlying().(*types.Struct); ok {
			return "zero"
		}
		if b, ok := c.Type().Underlying().(*types.Basic); ok && b.Kind() != types.UntypedNil {
			return "zero"
		}
		return "nil"
	}
	switch c.Value.Kind() {
	case constant.String:
		return fmt.Sprintf("%q", constant.StringVal(c.Value))
	case constant.Bool:
		return c.Value.String()
	}
	return c.Value.ExactString()
}

func exprD(v ssa.Value, d int, seen map[ssa.Value]bool) string {
	if v == nil {
		return "?"
	}
	if d <= 0 {
		return "…"
	}
	switch x := v.(type) {
	case *ssa.Parameter:
		return VarName(x)
	case *ssa.FreeVar:
		return "^" + VarName(x)
	case *ssa.Const:
		return constStr(x)
	case *ssa.Global:
		return Short(x.String())
	case *ssa.Function:
		return FuncName(x)
	case *ssa.Builtin:
		return x.Name()
	case *ssa.Alloc:
		if x.Comment != "" {
			return "&" + VarName(x)
		}
		return "&new"
	case *ssa.Phi:
		if resultMode == 2 && isNamedResult(x.Parent(), x.Comment, x.Type()) {
			return VarName(x)
		}
		if seen[x] {
			return "φ" + VarName(x)
		}
		seen[x] = true
		defer delete(seen, x)
		var parts []string
		for _, e := range x.Edges {
			parts = append(parts, exprD(e, d-2, seen))
		}
		sort.Strings(parts)
		parts = uniq(parts)
		return "φ" + VarName(x) + "{" + strings.Join(parts, "|") + "}"
	case *ssa.Call:
		var args []string
		_, isBuiltin := x.Call.Value.(*ssa.Builtin)
		if d > 7 || (isBuiltin && d > 1) {
			nd := d - 3
			if isBuiltin {
				nd = d - 1
			}
			if x.Call.IsInvoke() {
				args = append(args, exprD(x.Call.Value, nd, seen))
			}
			for _, a := range x.Call.Args {
				args = append(args, exprD(a, nd, seen))
			}
		}
		return calleeName(&x.Call) + "(" + strings.Join(args, ", ") + ")"
	case *ssa.Extract:
		return exprD(x.Tuple, d, seen) + fmt.Sprintf("#%d", x.Index)
	case *ssa.FieldAddr:
		return exprD(x.X, d-1, seen) + "." + fieldName(x.X.Type(), x.Field)
	case *ssa.Field:
		return exprD(x.X, d-1, seen) + "." + fieldName(x.X.Type(), x.Field)
	case *ssa.UnOp:
		switch x.Op {
		case token.MUL:
			// load: render the address expression without decoration for
			// field/alloc addresses so that "x.f" reads as a value.
			switch a := x.X.(type) {
			case *ssa.FieldAddr, *ssa.IndexAddr, *ssa.Global:
				return exprD(a, d, seen)
			case *ssa.Alloc:
				if a.Comment != "" {
					if resultMode == 1 && isNamedResult(a.Parent(), a.Comment, x.Type()) {
						return "φ" + VarName(a) + "{*}"
					}
					return VarName(a)
				}
				return "*new"
			case *ssa.FreeVar:
				return "^" + VarName(a)
			}
			return "*" + exprD(x.X, d-1, seen)
		case token.NOT:
			return "!" + paren(exprD(x.X, d-1, seen))
		case token.ARROW:
			return "<-" + exprD(x.X, d-1, seen)
		}
		return x.Op.String() + exprD(x.X, d-1, seen)
	case *ssa.BinOp:
		l, r := x.X, x.Y
		if (x.Op == token.EQL || x.Op == token.NEQ) && isConst(l) && !isConst(r) {
			l, r = r, l // constants on the right, as in normalised conditions
		}
		return paren(exprD(l, d-1, seen)) + " " + x.Op.String() + " " + paren(exprD(r, d-1, seen))
	case *ssa.ChangeType:
		return exprD(x.X, d, seen)
	case *ssa.Convert:
		return exprD(x.X, d, seen)
	case *ssa.MultiConvert:
		return exprD(x.X, d, seen)
	case *ssa.ChangeInterface:
		return exprD(x.X, d, seen)
	case *ssa.MakeInterface:
		return exprD(x.X, d, seen)
	case *ssa.SliceToArrayPointer:
		return exprD(x.X, d, seen)
	case *ssa.TypeAssert:
		return exprD(x.X, d-1, seen) + ".(" + Short(types.TypeString(x.AssertedType, nil)) + ")"
	case *ssa.Lookup:
		return exprD(x.X, d-1, seen) + "[" + exprD(x.Index, d-1, seen) + "]"
	case *ssa.Index:
		return exprD(x.X, d-1, seen) + "[" + exprD(x.Index, d-1, seen) + "]"
	case *ssa.IndexAddr:
		return exprD(x.X, d-1, seen) + "[" + exprD(x.Index, d-1, seen) + "]"
	case *ssa.Slice:
		// variadic / literal argument slices: show the elements when rendering deep
		if a, ok := x.X.(*ssa.Alloc); ok && d > 7 && x.Low == nil && x.High == nil {
			if _, isArr := a.Type().Underlying().(*types.Pointer).Elem().Underlying().(*types.Array); isArr && a.Referrers() != nil {
				elems := map[int64]string{}
				max := int64(-1)
				for _, r := range *a.Referrers() {
					ia, ok := r.(*ssa.IndexAddr)
					if !ok || ia.Referrers() == nil {
						continue
					}
					ci, ok := ia.Index.(*ssa.Const)
					if !ok {
						continue
					}
					for _, rr := range *ia.Referrers() {
						if st, ok := rr.(*ssa.Store); ok && st.Addr == ia {
							i := ci.Int64()
							elems[i] = exprD(st.Val, d-3, seen)
							if i > max {
								max = i
							}
						}
					}
				}
				if max >= 0 {
					var parts []string
					for i := int64(0); i <= max; i++ {
						parts = append(parts, elems[i])
					}
					return "[" + strings.Join(parts, ", ") + "]"
				}
			}
		}
		lo, hi := "", ""
		if x.Low != nil {
			lo = exprD(x.Low, d-1, seen)
		}
		if x.High != nil {
			hi = exprD(x.High, d-1, seen)
		}
		return exprD(x.X, d-1, seen) + "[" + lo + ":" + hi + "]"
	case *ssa.MakeClosure:
		return "closure:" + FuncName(x.Fn.(*ssa.Function))
	case *ssa.MakeMap:
		return "makemap"
	case *ssa.MakeSlice:
		return "makeslice"
	case *ssa.MakeChan:
		return "makechan"
	case *ssa.Next:
		return "next(" + exprD(x.Iter, d-1, seen) + ")"
	case *ssa.Range:
		return "range(" + exprD(x.X, d-1, seen) + ")"
	case *ssa.Select:
		return "select"
	}
	return fmt.Sprintf("%T", v)
}

func paren(s string) string {
	if strings.ContainsAny(s, " ") && !(strings.HasPrefix(s, "(") && strings.HasSuffix(s, ")")) {
		return "(" + s + ")"
	}
	return s
}

func uniq(s []string) []string {
	var out []string
	for i, x := range s {
		if i == 0 || x != s[i-1] {
			out = append(out, x)
		}
	}
	return out
}

func fieldName(t types.Type, i int) string {
	if p, ok := t.Underlying().(*types.Pointer); ok {
		t = p.Elem()
	}
	if st, ok := t.Underlying().(*types.Struct); ok && i < st.NumFields() {
		return st.Field(i).Name()
	}
	return fmt.Sprintf("f%d", i)
}

// FieldVar returns the field object addressed by a FieldAddr/Field.
func FieldVar(v ssa.Value) *types.Var {
	var t types.Type
	var i int
	switch x := v.(type) {
	case *ssa.FieldAddr:
		t, i = x.X.Type(), x.Field
	case *ssa.Field:
		t, i = x.X.Type(), x.Field
	default:
		return nil
	}
	if p, ok := t.Underlying().(*types.Pointer); ok {
		t = p.Elem()
	}
	if st, ok := t.Underlying().(*types.Struct); ok && i < st.NumFields() {
		return st.Field(i)
	}
	return nil
}

// NormCond is a branch condition in normal form: Base is the rendered
// expression, and the condition is equivalent to (Base == Pol).
// Normalisation: leading '!' is stripped, '!=' becomes '==', '>' '>=' '<='
// become '<' (operands swapped / polarity flipped). A rule therefore names a
// condition once and matches all its spellings.
type NormCond struct {
	Base string
	Pol  bool
	Val  ssa.Value // the value tested after stripping negations
	Atom string    // identity of the tested fact: same operands (SSA values) and same normal operator
	Alt  string    // for ==/!= between two non-constant operands: the same test with the operands swapped
	More []string  // the same test with the named results of the function rendered the other way (see resultMode)
}

// Matches reports whether the pattern matches the condition in either operand order.
func (n NormCond) Matches(re interface{ MatchString(string) bool }) bool {
	if re.MatchString(n.Base) || (n.Alt != "" && re.MatchString(n.Alt)) {
		return true
	}
	for _, m := range n.More {
		if re.MatchString(m) {
			return true
		}
	}
	return false
}

func valKey(v ssa.Value) string {
	if c, ok := v.(*ssa.Const); ok {
		return "c:" + constStr(c)
	}
	return fmt.Sprintf("%p", v)
}

func Normalize(v ssa.Value) NormCond { return normalizeWith(v, Expr) }

// NormalizeDeep renders operands with call arguments (to tell apart several
// tests of the same callee, e.g. strings.HasPrefix(req.Path, "auth/token/")).
func NormalizeDeep(v ssa.Value) NormCond { return normalizeWith(v, ExprDeep) }

// resultMode selects how a named result of the enclosing function is rendered.
// go/ssa lifts a named result to registers (its merges are phis, rendered
// "φname{...}") unless the function contains a defer, in which case the result
// stays a memory cell and every read of it is a load (rendered "name"). Whether
// a function has a defer is irrelevant to the conditions a rule looks for, so a
// condition is offered to the rule's pattern in both spellings: mode 1 renders a
// load of a named-result cell as "φname{*}", mode 2 renders a phi of a named
// result as "name".
var resultMode int

func isNamedResult(fn *ssa.Function, name string, t types.Type) bool {
	if fn == nil || name == "" || fn.Signature == nil {
		return false
	}
	res := fn.Signature.Results()
	for i := 0; i < res.Len(); i++ {
		if res.At(i).Name() == name && types.Identical(res.At(i).Type(), t) {
			return true
		}
	}
	return false
}

func normalizeWith(v ssa.Value, Expr func(ssa.Value) string) NormCond {
	nc := normalizeInner(v, Expr)
	in, ok := v.(ssa.Instruction)
	if !ok || in.Parent() == nil || in.Parent().Signature == nil {
		return nc
	}
	named := false
	res := in.Parent().Signature.Results()
	for i := 0; i < res.Len(); i++ {
		if res.At(i).Name() != "" && res.At(i).Name() != "_" {
			named = true
		}
	}
	if !named {
		return nc
	}
	for mode := 1; mode <= 2; mode++ {
		resultMode = mode
		alt := normalizeInner(v, Expr)
		resultMode = 0
		for _, t := range []string{alt.Base, alt.Alt} {
			if t != "" && t != nc.Base && t != nc.Alt {
				nc.More = append(nc.More, t)
			}
		}
	}
	return nc
}

func normalizeInner(v ssa.Value, Expr func(ssa.Value) string) NormCond {
	pol := true
	for {
		if u, ok := v.(*ssa.UnOp); ok && u.Op == token.NOT {
			pol = !pol
			v = u.X
			continue
		}
		break
	}
	if b, ok := v.(*ssa.BinOp); ok {
		x, y := Expr(b.X), Expr(b.Y)
		switch b.Op {
		case token.EQL:
			// keep constants on the right
			if _, isC := b.X.(*ssa.Const); isC {
				x, y = y, x
			}
			return NormCond{paren(x) + " == " + paren(y), pol, v, eqKey(b), altEq(b, x, y), nil}
		case token.NEQ:
			if _, isC := b.X.(*ssa.Const); isC {
				x, y = y, x
			}
			return NormCond{paren(x) + " == " + paren(y), !pol, v, eqKey(b), altEq(b, x, y), nil}
		case token.LSS:
			return NormCond{paren(x) + " < " + paren(y), pol, v, valKey(b.X) + "<" + valKey(b.Y), "", nil}
		case token.GTR:
			return NormCond{paren(y) + " < " + paren(x), pol, v, valKey(b.Y) + "<" + valKey(b.X), "", nil}
		case token.LEQ: // x <= y  ==  !(y < x)
			return NormCond{paren(y) + " < " + paren(x), !pol, v, valKey(b.Y) + "<" + valKey(b.X), "", nil}
		case token.GEQ: // x >= y  ==  !(x < y)
			return NormCond{paren(x) + " < " + paren(y), !pol, v, valKey(b.X) + "<" + valKey(b.Y), "", nil}
		}
	}
	return NormCond{Expr(v), pol, v, valKey(v), "", nil}
}

func altEq(b *ssa.BinOp, x, y string) string {
	if isConst(b.X) || isConst(b.Y) {
		return ""
	}
	return paren(y) + " == " + paren(x)
}

func eqKey(b *ssa.BinOp) string {
	x, y := valKey(b.X), valKey(b.Y)
	if _, isC := b.X.(*ssa.Const); isC || (x > y && !isConst(b.Y)) {
		x, y = y, x
	}
	return x + "==" + y
}

func isConst(v ssa.Value) bool { _, ok := v.(*ssa.Const); return ok }
