package eng

import (
	"fmt"
	"go/token"
	"sort"
	"strings"

	"golang.org/x/tools/go/ssa"
)

// Guard is a named set of CFG edges; crossing any of them satisfies the guard.
type Guard struct {
	Desc  string
	Edges []Edge
	// MustPass instructions: the guard additionally requires one of these to
	// have executed (used by call-success guards: the call itself).
	Pass []ssa.Instruction
}

// G builds a guard from condition edges: the edges of fn on which the
// normalised condition matching pat has value want.
func G(fn *ssa.Function, pat string, want bool) Guard {
	return Guard{Desc: fmt.Sprintf("[%s]=%v", pat, want), Edges: CondEdges(fn, pat, want)}
}

// GD is G on the deep rendering (call arguments shown).
func GD(fn *ssa.Function, pat string, want bool) Guard {
	return Guard{Desc: fmt.Sprintf("[%s]=%v", pat, want), Edges: CondEdgesDeep(fn, pat, want)}
}

// GCallOK: the success (nil error) edges of every call in fn matching pat.
func GCallOK(fn *ssa.Function, pat string) Guard {
	g := Guard{Desc: "success edge of " + pat}
	for _, c := range Calls(fn, pat) {
		if _, isDefer := c.(*ssa.Defer); isDefer {
			continue
		}
		g.Edges = append(g.Edges, CallOKEdges(c)...)
		g.Pass = append(g.Pass, c)
	}
	return g
}

// GValNil: edges on which v is nil (wantNil) / non-nil.
func GValNil(desc string, v ssa.Value, wantNil bool) Guard {
	return Guard{Desc: desc, Edges: ValueNilEdges(v, wantNil)}
}

// Or merges guards into one (crossing any edge of any of them suffices).
func Or(gs ...Guard) Guard {
	var d []string
	out := Guard{}
	for _, g := range gs {
		d = append(d, g.Desc)
		out.Edges = append(out.Edges, g.Edges...)
	}
	out.Desc = strings.Join(d, " OR ")
	return out
}

func posOf(in ssa.Instruction) token.Pos {
	if in == nil {
		return token.NoPos
	}
	if p := in.Pos(); p.IsValid() {
		return p
	}
	// fall back to any positioned instruction in the block
	for _, x := range in.Block().Instrs {
		if x.Pos().IsValid() {
			return x.Pos()
		}
	}
	return in.Parent().Pos()
}

// Cut (R2): every path from the entry of fn to any sink crosses an edge of g.
// A guard with no edges at all is a violation (the guard is absent), not a
// vacuous pass.
func (c *Ctx) Cut(fn *ssa.Function, sinkDesc string, sinks []ssa.Instruction, g Guard, assume map[string]bool) bool {
	site := "sink{" + sinkDesc + "} guard{" + g.Desc + "}"
	if fn == nil {
		return false
	}
	if len(sinks) == 0 {
		c.Undecided(fn, site, token.NoPos, "sink not found: no instruction matches "+sinkDesc+" (anchor moved? the rule cannot be evaluated)")
		return false
	}
	if len(g.Pass) > 0 {
		// the call must be on every path
		if h := Reach(Query{Fn: fn, Barriers: g.Pass, Target: IsTarget(sinks), Assume: assume}); h != nil {
			c.Violation(fn, site, posOf(h.Instr), "sink reachable without executing "+g.Desc, h.Witness)
			return false
		}
		// and after it, the success edge must be crossed
		for _, p := range g.Pass {
			if h := Reach(Query{Fn: fn, StartAfter: p, Blocked: g.Edges, Barriers: g.Pass, Target: IsTarget(sinks), Assume: assume}); h != nil {
				c.Violation(fn, site, posOf(h.Instr), "sink reachable after the call without crossing its success edge ("+g.Desc+")", h.Witness)
				return false
			}
		}
		c.OK(fn, site, posOf(sinks[0]), fmt.Sprintf("all %d sink(s) unreachable unless the call executed and its nil-error edge was crossed (%d edge(s))", len(sinks), len(g.Edges)))
		return true
	}
	h := Reach(Query{Fn: fn, Blocked: g.Edges, Target: IsTarget(sinks), Assume: assume})
	if h != nil {
		fact := "sink reachable from entry without crossing the guard"
		if len(g.Edges) == 0 {
			fact = "guard absent: no branch in this function tests " + g.Desc + "; sink reachable unguarded"
		}
		c.Violation(fn, site, posOf(h.Instr), fact, h.Witness)
		return false
	}
	c.OK(fn, site, posOf(sinks[0]), fmt.Sprintf("all %d sink(s) unreachable once the %d guard edge(s) are removed", len(sinks), len(g.Edges)))
	return true
}

// Before (R3): every path from entry to a sink executes one of `first`.
func (c *Ctx) Before(fn *ssa.Function, firstDesc string, first []ssa.Instruction, sinkDesc string, sinks []ssa.Instruction) bool {
	site := "order{" + firstDesc + " < " + sinkDesc + "}"
	if fn == nil {
		return false
	}
	if len(sinks) == 0 {
		c.Undecided(fn, site, token.NoPos, "site not found: "+sinkDesc)
		return false
	}
	if len(first) == 0 {
		h := Reach(Query{Fn: fn, Target: IsTarget(sinks)})
		var w []string
		pos := token.NoPos
		if h != nil {
			w, pos = h.Witness, posOf(h.Instr)
		}
		c.Violation(fn, site, pos, "required predecessor absent: no instruction matches "+firstDesc, w)
		return false
	}
	if h := Reach(Query{Fn: fn, Barriers: first, Target: IsTarget(sinks)}); h != nil {
		c.Violation(fn, site, posOf(h.Instr), sinkDesc+" reachable without first executing "+firstDesc, h.Witness)
		return false
	}
	c.OK(fn, site, posOf(sinks[0]), fmt.Sprintf("%d site(s) of %s are only reachable through %s", len(sinks), sinkDesc, firstDesc))
	return true
}

// NotAfter (R3): no `later` instruction is reachable after any of `first`.
func (c *Ctx) NotAfter(fn *ssa.Function, firstDesc string, first []ssa.Instruction, laterDesc string, later []ssa.Instruction) bool {
	site := "never{" + laterDesc + " after " + firstDesc + "}"
	if fn == nil {
		return false
	}
	if len(first) == 0 {
		c.Undecided(fn, site, token.NoPos, "site not found: "+firstDesc)
		return false
	}
	for _, f := range first {
		if h := Reach(Query{Fn: fn, StartAfter: f, Target: IsTarget(later)}); h != nil {
			c.Violation(fn, site, posOf(h.Instr), laterDesc+" is reachable after "+firstDesc, h.Witness)
			return false
		}
	}
	c.OK(fn, site, posOf(first[0]), fmt.Sprintf("none of %d %s site(s) reachable after %s", len(later), laterDesc, firstDesc))
	return true
}

// AfterEdges (R4): starting on the given edges, every path to a function exit
// (Return) executes one of `cleanup` first.
func (c *Ctx) CleanupOnEdges(fn *ssa.Function, edgeDesc string, edges []Edge, cleanupDesc string, cleanup []ssa.Instruction) bool {
	site := "on{" + edgeDesc + "} cleanup{" + cleanupDesc + "}"
	if fn == nil {
		return false
	}
	if len(edges) == 0 {
		c.Undecided(fn, site, token.NoPos, "edge not found: "+edgeDesc)
		return false
	}
	isRet := func(in ssa.Instruction) bool { _, ok := in.(*ssa.Return); return ok }
	if h := Reach(Query{Fn: fn, StartEdges: edges, Barriers: cleanup, Target: isRet}); h != nil {
		fact := "a return is reachable on " + edgeDesc + " without " + cleanupDesc
		if len(cleanup) == 0 {
			fact = "cleanup absent: no call matches " + cleanupDesc
		}
		c.Violation(fn, site, posOf(h.Instr), fact, h.Witness)
		return false
	}
	c.OK(fn, site, edges[0].From.Instrs[len(edges[0].From.Instrs)-1].Pos(), fmt.Sprintf("every return reachable from the %d edge(s) is preceded by %s", len(edges), cleanupDesc))
	return true
}

// ReturnsOnEdges collects the Return instructions reachable from edges
// (optionally stopping at barriers).
func ReturnsFrom(fn *ssa.Function, edges []Edge, after ssa.Instruction, barriers []ssa.Instruction) []*ssa.Return {
	var out []*ssa.Return
	seen := map[*ssa.Return]bool{}
	for {
		q := Query{Fn: fn, StartEdges: edges, StartAfter: after, Barriers: barriers, Target: func(in ssa.Instruction) bool {
			r, ok := in.(*ssa.Return)
			return ok && !seen[r]
		}}
		h := Reach(q)
		if h == nil {
			return out
		}
		r := h.Instr.(*ssa.Return)
		seen[r] = true
		out = append(out, r)
	}
}

// NilResultOnEdges (R4): every return reachable from edges has result i == nil.
func (c *Ctx) NilResultOnEdges(fn *ssa.Function, edgeDesc string, edges []Edge, i int, what string) bool {
	site := "on{" + edgeDesc + "} result" + itoa(i) + "=nil"
	if fn == nil {
		return false
	}
	if len(edges) == 0 {
		c.Undecided(fn, site, token.NoPos, "edge not found: "+edgeDesc)
		return false
	}
	rets := ReturnsFrom(fn, edges, nil, nil)
	reach := ReachableBlocks(fn, edges)
	for _, r := range rets {
		vals, _, _ := ReturnVals(r, i)
		for _, v := range vals {
			if !allNilFrom(v, reach, edges) {
				c.Violation(fn, site, posOf(r), fmt.Sprintf("return reachable on %s carries a possibly non-nil %s: %s", edgeDesc, what, Expr(v)), nil)
				return false
			}
		}
	}
	c.OK(fn, site, edges[0].From.Instrs[len(edges[0].From.Instrs)-1].Pos(), fmt.Sprintf("all %d return(s) reachable from the edge return a nil %s", len(rets), what))
	return true
}

// Prov (R5): every origin of v matches an allowed pattern.
func (c *Ctx) Prov(fn *ssa.Function, site string, at ssa.Instruction, v ssa.Value, allowed ...string) bool {
	site = "prov{" + site + "}"
	if v == nil {
		c.Undecided(fn, site, token.NoPos, "value not found")
		return false
	}
	ok, bad, all := OriginsMatch(v, allowed...)
	if !ok {
		c.Violation(fn, site, posOf(at), fmt.Sprintf("value may originate from %s; allowed origins: %v; all origins: %v", bad, allowed, all), nil)
		return false
	}
	c.OK(fn, site, posOf(at), fmt.Sprintf("origins %v ⊆ allowed %v", all, allowed))
	return true
}

// CallerTable (R1): the set of functions containing a call matching the
// callee set must be within `allowed` (function short name -> reason; closures
// are attributed to their enclosing function). Fewer than floor sites in total
// means the rule went vacuous. A table entry without a site is only noted: the
// table is an upper bound.
func (c *Ctx) CallerTable(what string, sites []CallSite, allowed map[string]string, floor int) {
	got := map[string][]CallSite{}
	var names []string
	for _, s := range sites {
		n := FuncName(TopFunc(s.Fn))
		if got[n] == nil {
			names = append(names, n)
		}
		got[n] = append(got[n], s)
	}
	sort.Strings(names)
	site := "callers{" + what + "}"
	if len(sites) < floor {
		o := c.add(Undecided, nil, site, token.NoPos, fmt.Sprintf("rule went vacuous: %d call site(s) found for %s, expected at least %d", len(sites), what, floor), nil)
		o.Func = what
	}
	for _, n := range names {
		ss := got[n]
		pos := token.NoPos
		if ss[0].Call != nil {
			pos = posOf(ss[0].Call)
		}
		reason, ok := allowed[n]
		if !ok {
			for _, s := range ss {
				p2 := pos
				if s.Call != nil {
					p2 = posOf(s.Call)
				}
				c.Violation(TopFunc(s.Fn), site, p2, "call site outside the frozen who-may-call table for "+what, nil)
			}
			continue
		}
		c.OK(TopFunc(ss[0].Fn), site, pos, fmt.Sprintf("%d call site(s); tabled: %s", len(ss), reason))
	}
	for n := range allowed {
		if len(got[n]) == 0 {
			c.Notes = append(c.Notes, "table entry without a site (upper bound only): "+what+" <- "+n)
		}
	}
}

// definitelyNonNil: v is a freshly constructed error / boxed value / error
// sentinel global (assumed non-nil), independent of the path.
func definitelyNonNil(v ssa.Value) bool {
	switch x := v.(type) {
	case *ssa.MakeInterface:
		return true
	case *ssa.Call:
		n := calleeName(&x.Call)
		switch n {
		case "errors.New", "fmt.Errorf", "github.com/hashicorp/go-multierror.Append", "errors.Join":
			return true
		}
		return false
	case *ssa.UnOp:
		if x.Op == token.MUL {
			if _, ok := x.X.(*ssa.Global); ok {
				return true // package-level error sentinel
			}
		}
	case *ssa.Phi:
		for _, e := range x.Edges {
			if !definitelyNonNil(e) {
				return false
			}
		}
		return true
	}
	return false
}

// NonNilAt: every path from the entry of fn to `at` crosses an edge on which v
// is known to be non-nil (v was tested), or v is non-nil by construction.
func NonNilAt(fn *ssa.Function, v ssa.Value, at ssa.Instruction) bool {
	if v == nil {
		return false
	}
	if definitelyNonNil(v) {
		return true
	}
	if IsNilConst(v) {
		return false
	}
	edges := ValueNilEdges(v, false)
	// resp.Error() is non-nil wherever resp.IsError() was found true on the same receiver
	if cl, ok := v.(*ssa.Call); ok && calleeName(&cl.Call) == "logical.(*Response).Error" && len(cl.Call.Args) == 1 {
		recv := cl.Call.Args[0]
		if refs := recv.Referrers(); refs != nil {
			for _, r := range *refs {
				if ic, ok := r.(*ssa.Call); ok && calleeName(&ic.Call) == "logical.(*Response).IsError" {
					edges = append(edges, boolEdges(ic, true)...)
				}
			}
		}
	}
	if len(edges) == 0 {
		return false
	}
	h := Reach(Query{Fn: fn, Blocked: edges, Target: func(in ssa.Instruction) bool { return in == at }})
	return h == nil
}

// SuccessReturns lists the returns of fn whose result errIdx may be nil
// (conservatively: everything not provably non-nil).
func SuccessReturns(fn *ssa.Function, errIdx int) []ssa.Instruction {
	var out []ssa.Instruction
	for _, r := range Returns(fn) {
		if r.Block().Comment == "recover" {
			continue
		}
		if errIdx >= len(r.Results) {
			continue
		}
		vals, viaLocal, _ := ReturnVals(r, errIdx)
		may := false
		for _, v := range vals {
			at := ssa.Instruction(r)
			if viaLocal {
				// the value was stored earlier; judge non-nilness at the store
				if !storedNonNil(fn, v) {
					may = true
				}
				continue
			}
			if !NonNilAt(fn, v, at) {
				may = true
			}
		}
		if may {
			out = append(out, r)
		}
	}
	return out
}

func storedNonNil(fn *ssa.Function, v ssa.Value) bool {
	if v == nil || IsNilConst(v) {
		return false
	}
	if definitelyNonNil(v) {
		return true
	}
	// find the store instruction(s) of v to a local and test there
	refs := v.Referrers()
	if refs == nil {
		return false
	}
	ok := false
	for _, r := range *refs {
		if st, isSt := r.(*ssa.Store); isSt && st.Val == v {
			if _, isAlloc := st.Addr.(*ssa.Alloc); isAlloc {
				if !NonNilAt(fn, v, st) {
					return false
				}
				ok = true
			}
		}
	}
	return ok
}

// NonNilResultReturns lists returns whose result idx may be non-nil.
func NonNilResultReturns(fn *ssa.Function, idx int) []ssa.Instruction {
	var out []ssa.Instruction
	for _, r := range Returns(fn) {
		if r.Block().Comment == "recover" || idx >= len(r.Results) {
			continue
		}
		vals, _, _ := ReturnVals(r, idx)
		for _, v := range vals {
			if !AllNilThroughPhi(v) {
				out = append(out, r)
				break
			}
		}
	}
	return out
}

// ReachableBlocks: blocks reachable (plain CFG) from the targets of edges.
func ReachableBlocks(fn *ssa.Function, edges []Edge) map[*ssa.BasicBlock]bool {
	seen := map[*ssa.BasicBlock]bool{}
	var stack []*ssa.BasicBlock
	for _, e := range edges {
		stack = append(stack, e.To())
	}
	for len(stack) > 0 {
		b := stack[len(stack)-1]
		stack = stack[:len(stack)-1]
		if seen[b] {
			continue
		}
		seen[b] = true
		stack = append(stack, b.Succs...)
	}
	return seen
}

// allNilFrom: every leaf of v is the nil constant, looking through phis but
// only along incoming edges that can be taken after one of the start edges.
func allNilFrom(v ssa.Value, reach map[*ssa.BasicBlock]bool, start []Edge) bool {
	seen := map[ssa.Value]bool{}
	var walk func(v ssa.Value) bool
	walk = func(v ssa.Value) bool {
		if v == nil || seen[v] {
			return true
		}
		seen[v] = true
		p, ok := v.(*ssa.Phi)
		if !ok {
			return IsNilConst(v)
		}
		if !reach[p.Block()] {
			// the phi was computed before the start edges: opaque value
			return false
		}
		for i, e := range p.Edges {
			pred := p.Block().Preds[i]
			feasible := reach[pred]
			for _, se := range start {
				if se.From == pred && se.To() == p.Block() {
					feasible = true
				}
			}
			if !feasible {
				continue
			}
			if !walk(e) {
				return false
			}
		}
		return true
	}
	return walk(v)
}

// CutEdges (R2): each of the given edges is taken only after crossing the
// guard: the edge is itself a guard edge, or its source block is unreachable
// without crossing one.
func (c *Ctx) CutEdges(fn *ssa.Function, desc string, edges []Edge, g Guard) bool {
	site := "edge{" + desc + "} guard{" + g.Desc + "}"
	if len(edges) == 0 {
		c.Undecided(fn, site, token.NoPos, "edge not found: "+desc)
		return false
	}
	gs := map[Edge]bool{}
	for _, e := range g.Edges {
		gs[e] = true
	}
	for _, e := range edges {
		if gs[e] {
			continue
		}
		term := e.From.Instrs[len(e.From.Instrs)-1]
		if h := Reach(Query{Fn: fn, Blocked: g.Edges, Target: func(in ssa.Instruction) bool { return in == term }}); h != nil {
			c.Violation(fn, site, posOf(term), desc+" can happen without crossing the guard", h.Witness)
			return false
		}
	}
	c.OK(fn, site, posOf(edges[0].From.Instrs[len(edges[0].From.Instrs)-1]), fmt.Sprintf("all %d edge(s) lie behind the guard", len(edges)))
	return true
}

// ErrChecked (R11): the error result of each call site is consumed (tested,
// returned, stored or passed on) rather than discarded.
func (c *Ctx) ErrChecked(fn *ssa.Function, call ssa.CallInstruction) bool {
	site := "errcheck{" + calleeName(call.Common()) + "}"
	if _, isDefer := call.(*ssa.Defer); isDefer {
		c.Violation(fn, site, call.Pos(), "error result of a deferred call is discarded", nil)
		return false
	}
	ev := ErrValue(call)
	if ev == nil {
		c.Violation(fn, site, call.Pos(), "the error result is discarded", nil)
		return false
	}
	if refs := ev.Referrers(); refs == nil || len(nonDebugRefs(*refs)) == 0 {
		c.Violation(fn, site, call.Pos(), "the error result is never used", nil)
		return false
	}
	c.OK(fn, site, call.Pos(), "error result is consumed")
	return true
}

func nonDebugRefs(rs []ssa.Instruction) []ssa.Instruction {
	var out []ssa.Instruction
	for _, r := range rs {
		if _, ok := r.(*ssa.DebugRef); !ok {
			out = append(out, r)
		}
	}
	return out
}
