package eng

// go/ssa compiles every function that contains a `defer` with its results
// spilled: `return x, err` becomes
//
//	store &r0 = x ; store &r1 = err ; rundefers ; return *r0, *r1
//
// so that deferred closures can observe and change named results. Whether a
// function has a defer is irrelevant to every rule of this checker, but the
// shape difference is not: adding `defer metrics.MeasureSince(...)` to an
// analysed function would otherwise change how every return of that function
// looks to the rules. Despill undoes the spill where that is exactly
// behaviour-preserving: for a result cell that no closure captures, that is
// never read except by the loads feeding a Return, and whose reaching store
// sits in the Return's own block, the Return is made to carry the stored value
// directly and the store/load pair is dropped. Cells that a deferred closure
// can see (named results captured by `defer func(){ ... retErr ... }()`), or
// that are assigned in one block and returned in another, are left alone and
// stay the business of ReturnVals/ReachingStores.

import (
	"go/token"

	"golang.org/x/tools/go/ssa"
)

// Despilled counts the result cells removed (reported in evidence notes).
var Despilled int

func despill(fn *ssa.Function) {
	if fn.Recover == nil && !hasRunDefers(fn) {
		return
	}
	// candidate cells: allocs loaded by Return operands
	cells := map[*ssa.Alloc]bool{}
	for _, b := range fn.Blocks {
		if len(b.Instrs) == 0 {
			continue
		}
		r, ok := b.Instrs[len(b.Instrs)-1].(*ssa.Return)
		if !ok {
			continue
		}
		for _, res := range r.Results {
			if u, ok := res.(*ssa.UnOp); ok && u.Op == token.MUL {
				if a, ok := u.X.(*ssa.Alloc); ok {
					cells[a] = true
				}
			}
		}
	}
	for a := range cells {
		if !despillable(a) {
			delete(cells, a)
		}
	}
	if len(cells) == 0 {
		return
	}
	// per Return outside the recover block: every cell it loads must have its reaching store in the same block
	type sub struct {
		ret  *ssa.Return
		idx  int
		load *ssa.UnOp
		st   *ssa.Store
	}
	var subs []sub
	bad := map[*ssa.Alloc]bool{}
	for _, b := range fn.Blocks {
		if b == fn.Recover || len(b.Instrs) == 0 {
			continue
		}
		r, ok := b.Instrs[len(b.Instrs)-1].(*ssa.Return)
		if !ok {
			continue
		}
		for i, res := range r.Results {
			u, ok := res.(*ssa.UnOp)
			if !ok || u.Op != token.MUL {
				continue
			}
			a, ok := u.X.(*ssa.Alloc)
			if !ok || !cells[a] {
				continue
			}
			var last *ssa.Store
			for _, in := range b.Instrs {
				if st, ok := in.(*ssa.Store); ok && st.Addr == ssa.Value(a) {
					last = st
				}
			}
			if last == nil || u.Block() != b {
				bad[a] = true
				continue
			}
			subs = append(subs, sub{r, i, u, last})
		}
	}
	for _, s := range subs {
		a := s.load.X.(*ssa.Alloc)
		if bad[a] {
			continue
		}
		v := s.st.Val
		s.ret.Results[s.idx] = v
		// referrers: the value is now used by the return instead of the store
		if refs := v.Referrers(); refs != nil {
			replaced := false
			for k, x := range *refs {
				if x == ssa.Instruction(s.st) {
					(*refs)[k] = s.ret
					replaced = true
					break
				}
			}
			if !replaced {
				*refs = append(*refs, s.ret)
			}
		}
		removeInstr(s.load.Block(), s.load)
		removeInstr(s.st.Block(), s.st)
		if refs := a.Referrers(); refs != nil {
			out := (*refs)[:0]
			for _, x := range *refs {
				if x != ssa.Instruction(s.load) && x != ssa.Instruction(s.st) {
					out = append(out, x)
				}
			}
			*refs = out
		}
		Despilled++
	}
}

func hasRunDefers(fn *ssa.Function) bool {
	for _, b := range fn.Blocks {
		for _, in := range b.Instrs {
			if _, ok := in.(*ssa.RunDefers); ok {
				return true
			}
		}
	}
	return false
}

// despillable: the cell is only stored to and loaded for returns; nothing else sees its address.
func despillable(a *ssa.Alloc) bool {
	refs := a.Referrers()
	if refs == nil {
		return false
	}
	for _, r := range *refs {
		switch x := r.(type) {
		case *ssa.Store:
			if x.Addr != ssa.Value(a) {
				return false // the address itself is stored somewhere
			}
		case *ssa.UnOp:
			if x.Op != token.MUL {
				return false
			}
			lr := x.Referrers()
			if lr == nil {
				return false
			}
			for _, u := range *lr {
				if _, ok := u.(*ssa.Return); !ok {
					return false // read for something other than returning it
				}
			}
		case *ssa.DebugRef:
		default:
			return false // captured by a closure, passed to a call, field address taken, ...
		}
	}
	return true
}

func removeInstr(b *ssa.BasicBlock, in ssa.Instruction) {
	for i, x := range b.Instrs {
		if x == in {
			b.Instrs = append(b.Instrs[:i:i], b.Instrs[i+1:]...)
			return
		}
	}
}
