// Package eng is the analysis engine: it loads /repo through go/packages,
// builds SSA and offers the rule primitives (cut-set reachability, error-path,
// provenance, who-may-call, field writers, lock spans) that the per-property
// tables in package props are written in.
package eng

import (
	"fmt"
	"go/token"
	"go/types"
	"os"
	"sort"
	"strings"
	"time"

	"golang.org/x/tools/go/packages"
	"golang.org/x/tools/go/ssa"
	"golang.org/x/tools/go/ssa/ssautil"
)

const (
	ModMain = "github.com/openbao/openbao/v2"
	ModSDK  = "github.com/openbao/openbao/sdk/v2"
	ModAPI  = "github.com/openbao/openbao/api/v2"
)

// Alias maps the short package names used in rule tables to import paths.
var Alias = map[string]string{
	"vault":      ModMain + "/internal/vault",
	"barrier":    ModMain + "/internal/vault/barrier",
	"routing":    ModMain + "/internal/vault/routing",
	"policy":     ModMain + "/internal/vault/policy",
	"identity":   ModMain + "/internal/vault/identity",
	"http":       ModMain + "/internal/http",
	"audit":      ModMain + "/internal/audit",
	"raft":       ModMain + "/internal/physical/raft",
	"postgresql": ModMain + "/internal/physical/postgresql",
	"kv":         ModMain + "/internal/builtin/logical/kv",
	"pki":        ModMain + "/internal/builtin/logical/pki",
	"transit":    ModMain + "/internal/builtin/logical/transit",
	"server":     ModMain + "/internal/command/server",
	"namespace":  ModMain + "/internal/helper/namespace",
	"physical":   ModSDK + "/physical",
	"inmem":      ModSDK + "/physical/inmem",
	"logical":    ModSDK + "/logical",
	"framework":  ModSDK + "/framework",
	"shamir":     ModSDK + "/helper/shamir",
	"keysutil":   ModSDK + "/helper/keysutil",
	"certutil":   ModSDK + "/helper/certutil",
	"policyutil": ModSDK + "/helper/policyutil",
	"locksutil":  ModSDK + "/helper/locksutil",
	"salt":       ModSDK + "/helper/salt",
	"sdkplugin":  ModSDK + "/plugin",
	"consts":     ModSDK + "/helper/consts",
}

// Patterns loaded for every check. The whole main module plus the sdk module:
// "cover what the build covers".
var Patterns = []string{
	"./...",
	ModSDK + "/...",
}

type Prog struct {
	Dir      string
	Pkgs     []*packages.Package
	ByPath   map[string]*packages.Package
	SSA      *ssa.Program
	Fset     *token.FileSet
	Funcs    []*ssa.Function // every function with a body, incl. anonymous and instantiations
	byName   map[string]*ssa.Function
	LoadSecs float64
	SSASecs  float64
	NPkgs    int
	Overlay  map[string][]byte
	Renames  []string // variables whose current name was mapped back to the frozen one (names.go)
}

// Load type-checks the repository (no execution) and builds SSA for the root packages.
func Load(dir string, overlay map[string][]byte, patterns ...string) (*Prog, error) {
	if len(patterns) == 0 {
		patterns = Patterns
	}
	t0 := time.Now()
	if _, err := os.Stat("/opt/veriftools/go1.27.0/bin/go"); err == nil && !strings.HasPrefix(os.Getenv("PATH"), "/opt/veriftools/go1.27.0/bin") {
		os.Setenv("PATH", "/opt/veriftools/go1.27.0/bin:"+os.Getenv("PATH"))
	}
	env := append(os.Environ(), "GOFLAGS=-mod=mod", "GOPROXY=off", "GOSUMDB=off", "GOTOOLCHAIN=local", "GOWORK=off", "CGO_ENABLED=1")
	if a := os.Getenv("OBSA_GOARCH"); a != "" {
		// second build configuration (thorough tier): covers the build-tagged siblings
		env = append(env, "GOARCH="+a, "CGO_ENABLED=0")
	}
	overlay = normaliseNoDefer(dir, overlay)
	cfg := &packages.Config{
		Mode:    packages.LoadSyntax,
		Dir:     dir,
		Env:     env,
		Tests:   false,
		Overlay: overlay,
	}
	pkgs, err := packages.Load(cfg, patterns...)
	if err != nil {
		return nil, fmt.Errorf("load: %w", err)
	}
	if len(pkgs) == 0 {
		return nil, fmt.Errorf("load: zero packages matched %v", patterns)
	}
	var errs []string
	for _, p := range pkgs {
		for _, e := range p.Errors {
			errs = append(errs, fmt.Sprintf("%s: %s", p.PkgPath, e.Error()))
		}
	}
	if len(errs) > 0 {
		if len(errs) > 12 {
			errs = append(errs[:12], fmt.Sprintf("... and %d more", len(errs)-12))
		}
		return nil, fmt.Errorf("type/load errors (the tree must compile):\n  %s", strings.Join(errs, "\n  "))
	}
	p := &Prog{Dir: dir, Pkgs: pkgs, ByPath: map[string]*packages.Package{}, byName: map[string]*ssa.Function{}, Overlay: overlay}
	for _, pk := range pkgs {
		p.ByPath[pk.PkgPath] = pk
	}
	p.NPkgs = len(pkgs)
	p.LoadSecs = time.Since(t0).Seconds()
	t1 := time.Now()
	prog, _ := ssautil.Packages(pkgs, ssa.InstantiateGenerics)
	prog.Build()
	p.SSA = prog
	p.Fset = prog.Fset
	root := map[*ssa.Package]bool{}
	for _, pk := range pkgs {
		if sp := prog.Package(pk.Types); sp != nil {
			root[sp] = true
		}
	}
	all := ssautil.AllFunctions(prog)
	for fn := range all {
		if fn.Blocks == nil {
			continue
		}
		top := fn
		for top.Parent() != nil {
			top = top.Parent()
		}
		pk := top.Package()
		if pk == nil && top.Origin() != nil {
			pk = top.Origin().Package()
		}
		if pk == nil || !root[pk] {
			continue
		}
		p.Funcs = append(p.Funcs, fn)
	}
	sort.Slice(p.Funcs, func(i, j int) bool {
		a, b := p.Funcs[i], p.Funcs[j]
		if a.String() != b.String() {
			return a.String() < b.String()
		}
		return a.Pos() < b.Pos()
	})
	if os.Getenv("OBSA_NO_DESPILL") == "" {
		Despilled = 0
		for _, fn := range p.Funcs {
			despill(fn)
		}
	}
	if os.Getenv("OBSA_NO_DEBOUND") == "" {
		Debound = 0
		for _, fn := range p.Funcs {
			debound(fn)
		}
	}
	p.loadFuncAliases()
	p.loadClosureAliases()
	for _, fn := range p.Funcs {
		p.byName[FnString(fn)] = fn
	}
	p.SSASecs = time.Since(t1).Seconds()
	p.loadNameAliases()
	return p, nil
}

// Expand turns "vault.(*Core).handleRequest" into the full ssa name
// "(*github.com/.../internal/vault.Core).handleRequest", and "vault.Foo" into
// "github.com/.../internal/vault.Foo". "$n" suffixes address anonymous functions.
func Expand(short string) string {
	i := strings.Index(short, ".")
	if i < 0 {
		return short
	}
	alias, rest := short[:i], short[i+1:]
	path, ok := Alias[alias]
	if !ok {
		return short
	}
	if strings.HasPrefix(rest, "(*") {
		// (*T).M
		return "(*" + path + "." + rest[2:]
	}
	if strings.HasPrefix(rest, "(") {
		return "(" + path + "." + rest[1:]
	}
	return path + "." + rest
}

// Short is the inverse of Expand for display and table keys.
func Short(full string) string {
	for a, p := range Alias {
		if strings.Contains(full, p+".") {
			full = strings.ReplaceAll(full, p+".", a+".")
		}
	}
	full = strings.ReplaceAll(full, ModMain+"/internal/", "")
	full = strings.ReplaceAll(full, ModSDK+"/", "sdk/")
	// (*vault.Core).x -> vault.(*Core).x
	if strings.HasPrefix(full, "(*") {
		if j := strings.Index(full, "."); j > 0 && !strings.Contains(full[:j], "/") {
			return full[2:j] + ".(*" + full[j+1:]
		}
	}
	if strings.HasPrefix(full, "(") && !strings.HasPrefix(full, "(*") {
		if j := strings.Index(full, "."); j > 0 && !strings.Contains(full[:j], "/") {
			return full[1:j] + ".(" + full[j+1:]
		}
	}
	return full
}

// Func resolves an anchor; nil if it no longer exists.
func (p *Prog) Func(short string) *ssa.Function {
	return p.byName[Expand(short)]
}

// FuncName is the short display name of fn.
func FuncName(fn *ssa.Function) string {
	if fn == nil {
		return "<nil>"
	}
	return Short(FnString(fn))
}

// Pkg returns the type-checked package for an alias or import path.
func (p *Prog) Pkg(alias string) *packages.Package {
	if path, ok := Alias[alias]; ok {
		return p.ByPath[path]
	}
	return p.ByPath[alias]
}

// Object resolves "alias.Name" to a package-level object.
func (p *Prog) Object(short string) types.Object {
	i := strings.LastIndex(short, ".")
	if i < 0 {
		return nil
	}
	pk := p.Pkg(short[:i])
	if pk == nil {
		return nil
	}
	return pk.Types.Scope().Lookup(short[i+1:])
}

// NamedType resolves "alias.T".
func (p *Prog) NamedType(short string) *types.Named {
	o := p.Object(short)
	if o == nil {
		return nil
	}
	n, _ := o.Type().(*types.Named)
	return n
}

// Field resolves "alias.T.f" to the field object.
func (p *Prog) Field(short string) *types.Var {
	i := strings.LastIndex(short, ".")
	if i < 0 {
		return nil
	}
	n := p.NamedType(short[:i])
	if n == nil {
		return nil
	}
	st, _ := n.Underlying().(*types.Struct)
	if st == nil {
		return nil
	}
	for k := 0; k < st.NumFields(); k++ {
		if st.Field(k).Name() == short[i+1:] {
			return st.Field(k)
		}
	}
	return nil
}

// IfaceMethod resolves "alias.Iface.Method" to the interface method object.
func (p *Prog) IfaceMethod(short string) *types.Func {
	i := strings.LastIndex(short, ".")
	if i < 0 {
		return nil
	}
	n := p.NamedType(short[:i])
	if n == nil {
		return nil
	}
	it, _ := n.Underlying().(*types.Interface)
	if it == nil {
		return nil
	}
	for k := 0; k < it.NumMethods(); k++ {
		if it.Method(k).Name() == short[i+1:] {
			return it.Method(k)
		}
	}
	return nil
}

// Pos renders a position relative to the repository root.
func (p *Prog) Pos(pos token.Pos) string {
	if !pos.IsValid() {
		return "-"
	}
	ps := p.Fset.Position(pos)
	f := strings.TrimPrefix(ps.Filename, p.Dir+"/")
	return fmt.Sprintf("%s:%d", f, ps.Line)
}

// TopFunc is the named function enclosing fn (closures are attributed to it).
func TopFunc(fn *ssa.Function) *ssa.Function {
	for fn.Parent() != nil {
		fn = fn.Parent()
	}
	return fn
}

// InPkg reports whether fn (or its enclosing function) belongs to the package alias/path.
func InPkg(fn *ssa.Function, alias string) bool {
	path := alias
	if p, ok := Alias[alias]; ok {
		path = p
	}
	t := TopFunc(fn)
	if t.Origin() != nil {
		t = t.Origin()
	}
	return t.Package() != nil && t.Package().Pkg.Path() == path
}

// PkgPathOf returns the import path of fn's package ("" for synthetic).
func PkgPathOf(fn *ssa.Function) string {
	t := TopFunc(fn)
	if t.Origin() != nil {
		t = t.Origin()
	}
	if t.Package() == nil {
		return ""
	}
	return t.Package().Pkg.Path()
}
