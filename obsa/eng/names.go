package eng

import (
	"encoding/json"
	"go/ast"
	"go/types"
	"os"
	"sort"

	"golang.org/x/tools/go/ssa"
)

// Variable names are not anchors: renaming a parameter or a local of an
// anchored function must not change a verdict. Rules are written against the
// names the variables had when the rules were written; those are frozen, per
// function and in declaration order, in obsa/names.json (`obsa names`). At load
// time the current declaration list of each function is aligned with the
// frozen one (longest common subsequence on (name, type); unmatched runs of
// equal length and pairwise equal types are paired positionally) and every
// rendering maps a current name back to its frozen name. Functions, types and
// fields stay anchors: renaming those is reported as an unresolved anchor.

// NamesFile is set by main before Load; empty disables the mapping.
var NamesFile string

type declVar struct {
	Name string `json:"n"`
	Type string `json:"t"`
}

var varAlias = map[*ssa.Function]map[string]string{}

// DeclaredVars lists the variables declared in fn's own syntax (receiver,
// parameters, named results, locals), in source order, not descending into
// nested function literals.
func (p *Prog) DeclaredVars(fn *ssa.Function) []declVar {
	syn := fn.Syntax()
	if syn == nil {
		return nil
	}
	top := TopFunc(fn)
	if top.Origin() != nil {
		top = top.Origin()
	}
	if top.Pkg == nil {
		return nil
	}
	pk := p.ByPath[top.Pkg.Pkg.Path()]
	if pk == nil || pk.TypesInfo == nil {
		return nil
	}
	info := pk.TypesInfo
	var out []declVar
	add := func(id *ast.Ident) {
		if id == nil || id.Name == "_" {
			return
		}
		if v, ok := info.Defs[id].(*types.Var); ok && !v.IsField() {
			out = append(out, declVar{id.Name, typeShape(v.Type(), 0)})
		}
	}
	fields := func(fl *ast.FieldList) {
		if fl == nil {
			return
		}
		for _, f := range fl.List {
			for _, n := range f.Names {
				add(n)
			}
		}
	}
	var body *ast.BlockStmt
	switch s := syn.(type) {
	case *ast.FuncDecl:
		fields(s.Recv)
		fields(s.Type.Params)
		fields(s.Type.Results)
		body = s.Body
	case *ast.FuncLit:
		fields(s.Type.Params)
		fields(s.Type.Results)
		body = s.Body
	default:
		return nil
	}
	if body != nil {
		ast.Inspect(body, func(n ast.Node) bool {
			switch x := n.(type) {
			case *ast.FuncLit:
				return false
			case *ast.Ident:
				add(x)
			}
			return true
		})
	}
	return out
}

// NamesSnapshot is what `obsa names` writes.
func (p *Prog) NamesSnapshot() map[string][]declVar {
	out := map[string][]declVar{}
	for _, fn := range p.Funcs {
		if fn.Synthetic != "" {
			continue
		}
		if dv := p.DeclaredVars(fn); len(dv) > 0 {
			out[FnString(fn)] = dv
		}
	}
	return out
}

func (p *Prog) loadNameAliases() {
	varAlias = map[*ssa.Function]map[string]string{}
	if NamesFile == "" {
		return
	}
	b, err := os.ReadFile(NamesFile)
	if err != nil {
		return
	}
	var snap map[string][]declVar
	if json.Unmarshal(b, &snap) != nil {
		return
	}
	for _, fn := range p.Funcs {
		old, ok := snap[FnString(fn)]
		if !ok {
			continue
		}
		cur := p.DeclaredVars(fn)
		if m := alignNames(cur, old); len(m) > 0 {
			varAlias[fn] = m
			p.Renames = append(p.Renames, FuncName(fn)+": "+renameList(m))
		}
	}
	sort.Strings(p.Renames)
}

func renameList(m map[string]string) string {
	var ks []string
	for k := range m {
		ks = append(ks, k)
	}
	sort.Strings(ks)
	s := ""
	for i, k := range ks {
		if i > 0 {
			s += ", "
		}
		s += k + "→" + m[k]
	}
	return s
}

// alignNames maps current names to frozen names where a rename is evident.
func alignNames(cur, old []declVar) map[string]string {
	n, m := len(cur), len(old)
	if n == 0 || m == 0 {
		return nil
	}
	same := true
	if n == m {
		for i := range cur {
			if cur[i] != old[i] {
				same = false
				break
			}
		}
		if same {
			return nil
		}
	}
	// LCS table
	l := make([][]int, n+1)
	for i := range l {
		l[i] = make([]int, m+1)
	}
	for i := n - 1; i >= 0; i-- {
		for j := m - 1; j >= 0; j-- {
			if cur[i] == old[j] {
				l[i][j] = l[i+1][j+1] + 1
			} else if l[i+1][j] >= l[i][j+1] {
				l[i][j] = l[i+1][j]
			} else {
				l[i][j] = l[i][j+1]
			}
		}
	}
	alias := map[string]string{}
	conflict := map[string]bool{}
	pair := func(ci, cj, oi, oj int) { // unmatched runs cur[ci:cj], old[oi:oj]
		if cj-ci != oj-oi || cj == ci {
			return
		}
		for k := 0; k < cj-ci; k++ {
			if cur[ci+k].Type != old[oi+k].Type {
				return
			}
		}
		for k := 0; k < cj-ci; k++ {
			c, o := cur[ci+k].Name, old[oi+k].Name
			if c == o {
				continue
			}
			if prev, ok := alias[c]; ok && prev != o {
				conflict[c] = true
			}
			alias[c] = o
		}
	}
	i, j, ci, oi := 0, 0, 0, 0
	for i < n && j < m {
		if cur[i] == old[j] {
			pair(ci, i, oi, j)
			i++
			j++
			ci, oi = i, j
		} else if l[i+1][j] >= l[i][j+1] {
			i++
		} else {
			j++
		}
	}
	pair(ci, n, oi, m)
	// a current name that is also still declared under the same name elsewhere
	// in the function (e.g. one of several `err`) cannot be mapped by name
	still := map[string]bool{}
	oldNames := map[string]bool{}
	for _, o := range old {
		oldNames[o.Name] = true
	}
	cnt := map[string]int{}
	for _, c := range cur {
		cnt[c.Name]++
	}
	for c := range alias {
		if conflict[c] || (cnt[c] > 1 && oldNames[c]) {
			still[c] = true
		}
	}
	for c := range still {
		delete(alias, c)
	}
	return alias
}

// frozenName maps a variable name used in fn (or captured from an enclosing
// function) back to the name the rules were written against.
func frozenName(fn *ssa.Function, name string) string {
	for f := fn; f != nil; f = f.Parent() {
		if m := varAlias[f]; m != nil {
			if o, ok := m[name]; ok {
				return o
			}
		}
	}
	return name
}

// VarName is the frozen name of a parameter, free variable, local or phi.
func VarName(v ssa.Value) string {
	switch x := v.(type) {
	case *ssa.Parameter:
		return frozenName(x.Parent(), x.Name())
	case *ssa.FreeVar:
		if x.Parent() != nil {
			return frozenName(x.Parent().Parent(), x.Name())
		}
		return x.Name()
	case *ssa.Alloc:
		return frozenName(x.Parent(), x.Comment)
	case *ssa.Phi:
		return frozenName(x.Parent(), x.Comment)
	}
	return ""
}

// typeShape renders a type without the names of function parameters and
// results (renaming those must not look like a type change).
func typeShape(t types.Type, d int) string {
	if d > 6 {
		return "…"
	}
	q := func(*types.Package) string { return "" }
	switch x := t.(type) {
	case *types.Signature:
		s := "func("
		for i := 0; i < x.Params().Len(); i++ {
			if i > 0 {
				s += ","
			}
			if x.Variadic() && i == x.Params().Len()-1 {
				s += "..."
			}
			s += typeShape(x.Params().At(i).Type(), d+1)
		}
		s += ")("
		for i := 0; i < x.Results().Len(); i++ {
			if i > 0 {
				s += ","
			}
			s += typeShape(x.Results().At(i).Type(), d+1)
		}
		return s + ")"
	case *types.Pointer:
		return "*" + typeShape(x.Elem(), d+1)
	case *types.Slice:
		return "[]" + typeShape(x.Elem(), d+1)
	case *types.Array:
		return "[n]" + typeShape(x.Elem(), d+1)
	case *types.Map:
		return "map[" + typeShape(x.Key(), d+1) + "]" + typeShape(x.Elem(), d+1)
	case *types.Chan:
		return "chan " + typeShape(x.Elem(), d+1)
	}
	return types.TypeString(t, q)
}
