package eng

// Functions are anchors ("vault.(*TokenStore).revokeInternal"). Renaming an
// anchored unexported helper is an everyday edit that does not touch any
// property, so the loader tolerates it: funcs.json (written by `obsa names`,
// next to names.json) freezes, for every top-level function of the analysed
// packages, its package, receiver type, signature shape and the set of callees
// it names. A frozen function that no longer resolves is matched with a
// function of the same package, receiver and signature shape that did not exist
// when the snapshot was taken and whose callee set is the most similar
// (Jaccard >= 0.5, unique best); the rules then see the frozen name, for the
// function itself, for its closures and wherever it is called. No match (or an
// ambiguous one) leaves the anchor unresolved: the rule fails as undecided,
// never silently.

import (
	"encoding/json"
	"os"
	"path/filepath"
	"sort"
	"strings"

	"golang.org/x/tools/go/ssa"
)

type funcDesc struct {
	Pkg     string   `json:"p"`
	Recv    string   `json:"r,omitempty"`
	Sig     string   `json:"s"`
	Callees []string `json:"c,omitempty"`
}

// fnAlias maps a current top-level function to the full (ssa String() style)
// name it is known under in the frozen tables.
var fnAlias map[*ssa.Function]string

func describeFunc(fn *ssa.Function) funcDesc {
	d := funcDesc{Sig: typeShape(fn.Signature, 0)}
	if fn.Pkg != nil {
		d.Pkg = fn.Pkg.Pkg.Path()
	}
	if r := fn.Signature.Recv(); r != nil {
		d.Recv = typeShape(r.Type(), 0)
	}
	set := map[string]bool{}
	var walk func(f *ssa.Function)
	walk = func(f *ssa.Function) {
		for _, b := range f.Blocks {
			for _, in := range b.Instrs {
				ci, ok := in.(ssa.CallInstruction)
				if !ok {
					continue
				}
				cc := ci.Common()
				if sc := cc.StaticCallee(); sc != nil {
					if sc.Parent() == nil { // not one of its own closures
						set[sc.String()] = true
					}
				} else if cc.IsInvoke() && cc.Method != nil {
					set["invoke."+cc.Method.Name()] = true
				}
			}
		}
		for _, a := range f.AnonFuncs {
			walk(a)
		}
	}
	walk(fn)
	for k := range set {
		d.Callees = append(d.Callees, k)
	}
	sort.Strings(d.Callees)
	return d
}

// FuncsSnapshot is what `obsa names` writes to funcs.json.
func (p *Prog) FuncsSnapshot() map[string]funcDesc {
	out := map[string]funcDesc{}
	for _, fn := range p.Funcs {
		if fn.Parent() != nil || fn.Synthetic != "" || fn.Origin() != nil {
			continue
		}
		out[fn.String()] = describeFunc(fn)
	}
	return out
}

func jaccard(a, b []string) float64 {
	if len(a) == 0 && len(b) == 0 {
		return 1
	}
	set := map[string]bool{}
	for _, x := range a {
		set[x] = true
	}
	inter := 0
	for _, x := range b {
		if set[x] {
			inter++
		}
	}
	union := len(a) + len(b) - inter
	if union == 0 {
		return 1
	}
	return float64(inter) / float64(union)
}

func (p *Prog) loadFuncAliases() {
	fnAlias = map[*ssa.Function]string{}
	if NamesFile == "" {
		return
	}
	b, err := os.ReadFile(filepath.Join(filepath.Dir(NamesFile), "funcs.json"))
	if err != nil {
		return
	}
	var snap map[string]funcDesc
	if json.Unmarshal(b, &snap) != nil {
		return
	}
	cur := map[string]*ssa.Function{}
	for _, fn := range p.Funcs {
		if fn.Parent() == nil && fn.Synthetic == "" && fn.Origin() == nil {
			cur[fn.String()] = fn
		}
	}
	// new functions (not in the snapshot), by package
	fresh := map[string][]*ssa.Function{}
	for name, fn := range cur {
		if _, known := snap[name]; !known && fn.Pkg != nil {
			fresh[fn.Pkg.Pkg.Path()] = append(fresh[fn.Pkg.Pkg.Path()], fn)
		}
	}
	if len(fresh) == 0 {
		return
	}
	// a renamed function's callers name the new function: compare callee sets modulo the candidate rename
	var gone []string
	for name := range snap {
		if _, ok := cur[name]; !ok {
			gone = append(gone, name)
		}
	}
	sort.Strings(gone)
	taken := map[*ssa.Function]bool{}
	for _, name := range gone {
		old := snap[name]
		var best *ssa.Function
		bestScore, second := 0.0, 0.0
		for _, cand := range fresh[old.Pkg] {
			if taken[cand] {
				continue
			}
			d := describeFunc(cand)
			if d.Recv != old.Recv || d.Sig != old.Sig {
				continue
			}
			s := jaccard(d.Callees, old.Callees)
			if s > bestScore {
				best, second, bestScore = cand, bestScore, s
			} else if s > second {
				second = s
			}
		}
		if best != nil && bestScore >= 0.5 && bestScore > second {
			fnAlias[best] = name
			taken[best] = true
			p.Renames = append(p.Renames, "function "+Short(best.String())+" is known to the rules as "+Short(name))
		}
	}
}

// aliasTop rewrites the top-level part of a (possibly closure) name.
func aliasTop(fn *ssa.Function, s string) string {
	top := TopFunc(fn)
	if a, ok := fnAlias[top]; ok {
		return a + strings.TrimPrefix(s, top.String())
	}
	return s
}
