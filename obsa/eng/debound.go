package eng

// `f := x.M; f(a)` is, to go/ssa, a call of a closure over the synthetic
// wrapper M$bound with x as its only binding; `x.M(a)` is a direct call of M
// with x as the first argument (or an invoke, if x is an interface). The two
// are the same program, and which one a maintainer writes is irrelevant to every
// rule here — but a rule that indexes the arguments of "the call of M" would
// find them shifted by one. Debound rewrites the first form into the second
// where the closure is called directly (the callee operand of the call *is*
// the MakeClosure): the receiver was evaluated when the method value was made,
// and it is that SSA value that becomes the first argument, so nothing about
// evaluation order changes. Method values that are stored, passed on or merged
// stay what they are (FuncValueUses reports them).

import (
	"strings"

	"golang.org/x/tools/go/ssa"
)

// Debound counts the calls rewritten (reported in evidence notes).
var Debound int

func debound(fn *ssa.Function) {
	for _, b := range fn.Blocks {
		for _, in := range b.Instrs {
			ci, ok := in.(ssa.CallInstruction)
			if !ok {
				continue
			}
			cc := ci.Common()
			if cc.IsInvoke() {
				continue
			}
			mc, ok := cc.Value.(*ssa.MakeClosure)
			if !ok || len(mc.Bindings) != 1 {
				continue
			}
			w, ok := mc.Fn.(*ssa.Function)
			if !ok || !strings.HasPrefix(w.Synthetic, "bound method wrapper") || len(w.Blocks) != 1 {
				continue
			}
			// the wrapper's body is one call of the method on its free variable
			var inner *ssa.CallCommon
			n := 0
			for _, wi := range w.Blocks[0].Instrs {
				if c, ok := wi.(ssa.CallInstruction); ok {
					inner = c.Common()
					n++
				}
			}
			if n != 1 || inner == nil {
				continue
			}
			recv := mc.Bindings[0]
			if inner.IsInvoke() {
				if _, isFV := inner.Value.(*ssa.FreeVar); !isFV {
					continue
				}
				cc.Value = recv
				cc.Method = inner.Method
			} else {
				callee, ok := inner.Value.(*ssa.Function)
				if !ok || len(inner.Args) != len(cc.Args)+1 {
					continue
				}
				if _, isFV := inner.Args[0].(*ssa.FreeVar); !isFV {
					continue
				}
				cc.Value = callee
				cc.Args = append([]ssa.Value{recv}, cc.Args...)
			}
			// referrers: the call now uses the receiver instead of the closure
			if refs := mc.Referrers(); refs != nil {
				out := (*refs)[:0]
				dropped := false
				for _, r := range *refs {
					if !dropped && r == ssa.Instruction(ci) {
						dropped = true
						continue
					}
					out = append(out, r)
				}
				*refs = out
			}
			if refs := recv.Referrers(); refs != nil {
				*refs = append(*refs, ci)
			}
			Debound++
		}
	}
}
