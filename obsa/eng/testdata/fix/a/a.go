// Package a is the engine's fixture: for every rule primitive one conforming
// and one violating function. The violating one MUST be reported; the
// conforming one MUST NOT. Never executed.
package a

import (
	"errors"
	"sync"
)

type Store interface {
	Put(key string, v []byte) error
	Get(key string) ([]byte, error)
}

type T struct {
	mu    sync.Mutex
	s     Store
	n     int
	state string
}

var global = "g"

func check(x int) bool { return x > 0 }
func sink(x int)       {}
func cleanup()         {}
func raw(k string)     {}

// ---- R2 cut
func CutOK(x int) {
	if !check(x) {
		return
	}
	sink(x)
}

func CutBad(x int) {
	if !check(x) {
		x = 0 // forgot to return
	}
	sink(x)
}

// guard re-tested on the same operands: consistent atoms
func CutRepeatedOK(x int, flag bool) {
	if flag {
		if !check(x) {
			return
		}
	}
	if flag {
		sink(x)
	}
}

// ---- R4 cleanup on the failure edge
func (t *T) CleanupOK(k string) error {
	if err := t.s.Put(k, nil); err != nil {
		cleanup()
		return err
	}
	return nil
}

func (t *T) CleanupBad(k string) error {
	if err := t.s.Put(k, nil); err != nil {
		if k == "" {
			return err // leaks
		}
		cleanup()
		return err
	}
	return nil
}

// named result + deferred closure
func (t *T) CleanupDeferredOK(k string) (retErr error) {
	defer func() {
		if retErr != nil {
			cleanup()
		}
	}()
	if err := t.s.Put(k, nil); err != nil {
		return err
	}
	return nil
}

// ---- R4 nil result on failure
func (t *T) NilOnFailOK(k string) ([]byte, error) {
	v, err := t.s.Get(k)
	if err != nil {
		return nil, err
	}
	return v, nil
}

func (t *T) NilOnFailBad(k string) ([]byte, error) {
	v, err := t.s.Get(k)
	if err != nil {
		return v, err
	}
	return v, nil
}

// ---- R5 provenance
func (t *T) ProvOK(k string) error  { return t.s.Put("p/"+k, nil) }
func (t *T) ProvBad(k string) error { return t.s.Put(global+k, nil) }

type entry struct {
	Key string
	Val int
}

func useEntry(e *entry) {}

func LitOK(k string)  { e := &entry{Key: k, Val: 1}; useEntry(e) }
func LitBad(k string) { e := &entry{Key: global, Val: 1}; useEntry(e) }

// ---- R9 lock
func (t *T) LockedOK() {
	t.mu.Lock()
	defer t.mu.Unlock()
	t.n++
	sink(t.n)
}

func (t *T) LockedBad() {
	t.mu.Lock()
	t.n++
	t.mu.Unlock()
	sink(t.n)
}

// ---- R3 order
func (t *T) OrderOK(k string) error {
	if err := t.s.Put(k, nil); err != nil {
		return err
	}
	t.state = k
	return nil
}

func (t *T) OrderBad(k string) error {
	t.state = k
	if err := t.s.Put(k, nil); err != nil {
		return err
	}
	return nil
}

// ---- R1 who may call
func Allowed() { raw("a") }
func Rogue()   { raw("r") }
func ByValue() func(string) {
	return raw
}

// a tabled METHOD taken as a bound method value and called through it
func (t *T) rawM(k string) {}
func (t *T) AllowedM()     { t.rawM("a") }
func (t *T) ByBoundValue() {
	f := t.rawM
	f("r")
}

// ---- R11 error use
func (t *T) ErrCheckedOK(k string) error { return t.s.Put(k, nil) }
func (t *T) ErrDropped(k string)        { t.s.Put(k, nil) }

// ---- success returns
func (t *T) SuccessPaths(k string) error {
	if k == "" {
		return errors.New("empty")
	}
	if err := t.s.Put(k, nil); err != nil {
		return err
	}
	return nil
}
