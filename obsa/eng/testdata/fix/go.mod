module fix

go 1.27.0
