package eng

// A `defer` added to a function changes nothing a rule of this checker cares
// about, but it changes the function's SSA form radically when the function has
// named results: go/ssa refuses to lift the named results of a function with a
// defer to registers (a recovered panic returns their current values), so every
// read of `err` becomes a load from a cell, every merge loses its phi, and
// rules written against the register form no longer recognise the function.
// despill.go undoes the simplest case (value stored and returned in one block);
// this file removes the cause for the rest.
//
// nodefer.json (written by `obsa names`, next to names.json) lists the
// functions that had named results and no defer when the rules were written.
// If such a function has a defer today, and no function literal inside it
// mentions a named result (so no deferred closure can observe or change one),
// the loader analyses it in the equivalent form
//
//	func f(...) (T, error) { var a T; var err error; _, _ = a, err; defer ...; ... return a, err }
//
// i.e. the results become ordinary locals and bare returns name them. The two
// forms differ only in what a *recovered panic* returns — a path no rule
// evaluates (Returns() skips the recover block). Everything stays on its line,
// so reported positions keep their line numbers. Functions that had a defer
// when the rules were written are left alone: their rules were written against
// the cell form.

import (
	"encoding/json"
	"go/ast"
	"go/parser"
	"go/token"
	"os"
	"path/filepath"
	"sort"
	"strings"
	"sync"

	"golang.org/x/tools/go/ssa"
)

// NoDeferNormalised lists the functions rewritten by the loader (evidence notes).
var NoDeferNormalised []string

func noDeferKey(relDir, recv, name string) string { return relDir + "|" + recv + "|" + name }

func recvTypeName(fd *ast.FuncDecl) string {
	if fd.Recv == nil || len(fd.Recv.List) == 0 {
		return ""
	}
	t := fd.Recv.List[0].Type
	for {
		switch x := t.(type) {
		case *ast.StarExpr:
			t = x.X
			continue
		case *ast.ParenExpr:
			t = x.X
			continue
		case *ast.IndexExpr:
			t = x.X
			continue
		case *ast.IndexListExpr:
			t = x.X
			continue
		case *ast.Ident:
			return x.Name
		}
		return ""
	}
}

func hasNamedResults(fd *ast.FuncDecl) bool {
	if fd.Type.Results == nil {
		return false
	}
	for _, f := range fd.Type.Results.List {
		if len(f.Names) > 0 {
			return true
		}
	}
	return false
}

// ownDefer: a defer statement of the function itself (not of a nested literal).
func ownDefer(body *ast.BlockStmt) bool {
	found := false
	ast.Inspect(body, func(n ast.Node) bool {
		switch n.(type) {
		case *ast.FuncLit:
			return false
		case *ast.DeferStmt:
			found = true
		}
		return !found
	})
	return found
}

// NoDeferSnapshot is what `obsa names` writes to nodefer.json.
func (p *Prog) NoDeferSnapshot() []string {
	set := map[string]bool{}
	for _, fn := range p.Funcs {
		if fn.Parent() != nil || fn.Origin() != nil {
			continue
		}
		fd, ok := fn.Syntax().(*ast.FuncDecl)
		if !ok || fd.Body == nil || !hasNamedResults(fd) || ownDefer(fd.Body) {
			continue
		}
		file := p.Fset.Position(fd.Pos()).Filename
		rel, err := filepath.Rel(p.Dir, filepath.Dir(file))
		if err != nil || strings.HasPrefix(rel, "..") {
			continue
		}
		set[noDeferKey(rel, recvTypeName(fd), fd.Name.Name)] = true
	}
	out := make([]string, 0, len(set))
	for k := range set {
		out = append(out, k)
	}
	sort.Strings(out)
	return out
}

var _ = (*ssa.Function)(nil)

type textEdit struct {
	off, n int
	s      string
}

// normaliseNoDefer returns overlay entries (added to / replacing those of
// `overlay`) for the files in which a listed function now has a defer.
func normaliseNoDefer(dir string, overlay map[string][]byte) map[string][]byte {
	NoDeferNormalised = nil
	if NamesFile == "" || os.Getenv("OBSA_NO_NODEFER") != "" {
		return overlay
	}
	b, err := os.ReadFile(filepath.Join(filepath.Dir(NamesFile), "nodefer.json"))
	if err != nil {
		return overlay
	}
	var list []string
	if json.Unmarshal(b, &list) != nil || len(list) == 0 {
		return overlay
	}
	want := map[string]bool{}
	dirs := map[string]bool{}
	for _, k := range list {
		want[k] = true
		dirs[k[:strings.Index(k, "|")]] = true
	}
	var files []string
	for d := range dirs {
		ents, err := os.ReadDir(filepath.Join(dir, d))
		if err != nil {
			continue
		}
		for _, e := range ents {
			n := e.Name()
			if e.IsDir() || !strings.HasSuffix(n, ".go") || strings.HasSuffix(n, "_test.go") {
				continue
			}
			files = append(files, filepath.Join(dir, d, n))
		}
	}
	for f := range overlay {
		if strings.HasSuffix(f, ".go") && !strings.HasSuffix(f, "_test.go") {
			if _, err := os.Stat(f); err != nil { // a file the overlay adds
				files = append(files, f)
			}
		}
	}
	sort.Strings(files)
	type res struct {
		file  string
		src   []byte
		names []string
	}
	out := make([]res, len(files))
	var wg sync.WaitGroup
	sem := make(chan struct{}, 16)
	for i, f := range files {
		wg.Add(1)
		go func(i int, f string) {
			defer wg.Done()
			sem <- struct{}{}
			defer func() { <-sem }()
			src, ok := overlay[f]
			if !ok {
				var err error
				if src, err = os.ReadFile(f); err != nil {
					return
				}
			}
			if !strings.Contains(string(src), "defer") {
				return
			}
			rel, err := filepath.Rel(dir, filepath.Dir(f))
			if err != nil {
				return
			}
			if ns, names := rewriteNoDefer(f, src, rel, want); len(names) > 0 {
				out[i] = res{f, ns, names}
			}
		}(i, f)
	}
	wg.Wait()
	var merged map[string][]byte
	for _, r := range out {
		if len(r.names) == 0 {
			continue
		}
		if merged == nil {
			merged = map[string][]byte{}
			for k, v := range overlay {
				merged[k] = v
			}
		}
		merged[r.file] = r.src
		NoDeferNormalised = append(NoDeferNormalised, r.names...)
	}
	if merged == nil {
		return overlay
	}
	sort.Strings(NoDeferNormalised)
	return merged
}

func rewriteNoDefer(file string, src []byte, relDir string, want map[string]bool) ([]byte, []string) {
	fset := token.NewFileSet()
	af, err := parser.ParseFile(fset, file, src, parser.SkipObjectResolution)
	if err != nil {
		return nil, nil
	}
	off := func(p token.Pos) int { return fset.Position(p).Offset }
	var edits []textEdit
	var names []string
	for _, d := range af.Decls {
		fd, ok := d.(*ast.FuncDecl)
		if !ok || fd.Body == nil || !hasNamedResults(fd) || !ownDefer(fd.Body) {
			continue
		}
		if !want[noDeferKey(relDir, recvTypeName(fd), fd.Name.Name)] {
			continue
		}
		// result names; give up on blanks and on names a function literal mentions
		resNames := map[string]bool{}
		var order []string
		var types []string
		okNames := true
		for _, f := range fd.Type.Results.List {
			if len(f.Names) == 0 {
				okNames = false
				break
			}
			ts := string(src[off(f.Type.Pos()):off(f.Type.End())])
			for _, n := range f.Names {
				if n.Name == "_" {
					okNames = false
				}
				resNames[n.Name] = true
				order = append(order, n.Name)
				types = append(types, ts)
			}
		}
		if !okNames {
			continue
		}
		captured := false
		ast.Inspect(fd.Body, func(n ast.Node) bool {
			if fl, ok := n.(*ast.FuncLit); ok {
				ast.Inspect(fl, func(m ast.Node) bool {
					if id, ok := m.(*ast.Ident); ok && resNames[id.Name] {
						captured = true
					}
					return !captured
				})
				return false
			}
			return !captured
		})
		if captured {
			continue
		}
		// 1. the result list loses its names
		edits = append(edits, textEdit{off(fd.Type.Results.Opening), off(fd.Type.Results.Closing) + 1 - off(fd.Type.Results.Opening), "(" + strings.Join(types, ", ") + ")"})
		// 2. the results become locals
		var decl strings.Builder
		for i, n := range order {
			decl.WriteString(" var " + n + " " + types[i] + ";")
		}
		decl.WriteString(" " + strings.Repeat("_, ", len(order)-1) + "_ = " + strings.Join(order, ", ") + ";")
		edits = append(edits, textEdit{off(fd.Body.Lbrace) + 1, 0, decl.String()})
		// 3. bare returns name them
		ast.Inspect(fd.Body, func(n ast.Node) bool {
			switch x := n.(type) {
			case *ast.FuncLit:
				return false
			case *ast.ReturnStmt:
				if len(x.Results) == 0 {
					edits = append(edits, textEdit{off(x.Return) + len("return"), 0, " " + strings.Join(order, ", ")})
				}
			}
			return true
		})
		r := recvTypeName(fd)
		if r != "" {
			r = "(" + r + ")."
		}
		names = append(names, relDir+"."+r+fd.Name.Name)
	}
	if len(names) == 0 {
		return nil, nil
	}
	sort.Slice(edits, func(i, j int) bool { return edits[i].off > edits[j].off })
	out := append([]byte(nil), src...)
	for _, e := range edits {
		out = append(out[:e.off], append([]byte(e.s), out[e.off+e.n:]...)...)
	}
	return out, names
}
