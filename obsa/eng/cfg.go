package eng

import (
	"fmt"
	"go/token"
	"go/types"
	"regexp"
	"sort"
	"strings"

	"golang.org/x/tools/go/ssa"
)

// Edge is a CFG edge: successor number Succ of block From (for an If: 0 = true, 1 = false).
type Edge struct {
	From *ssa.BasicBlock
	Succ int
}

func (e Edge) To() *ssa.BasicBlock { return e.From.Succs[e.Succ] }

// IfOf returns the If terminating b, or nil.
func IfOf(b *ssa.BasicBlock) *ssa.If {
	if len(b.Instrs) == 0 {
		return nil
	}
	i, _ := b.Instrs[len(b.Instrs)-1].(*ssa.If)
	return i
}

// CondEdges returns, for every If in fn whose normalised condition matches
// pat, the edge on which (normalised base) == want.
func CondEdges(fn *ssa.Function, pat string, want bool) []Edge {
	return condEdgesWith(fn, pat, want, Normalize)
}

// CondEdgesDeep matches against the rendering with call arguments.
func CondEdgesDeep(fn *ssa.Function, pat string, want bool) []Edge {
	return condEdgesWith(fn, pat, want, NormalizeDeep)
}

func condEdgesWith(fn *ssa.Function, pat string, want bool, Normalize func(ssa.Value) NormCond) []Edge {
	re := regexp.MustCompile(pat)
	var out []Edge
	for _, b := range fn.Blocks {
		ifi := IfOf(b)
		if ifi == nil {
			continue
		}
		nc := Normalize(ifi.Cond)
		if !nc.Matches(re) {
			continue
		}
		if nc.Pol == want {
			out = append(out, Edge{b, 0})
		} else {
			out = append(out, Edge{b, 1})
		}
	}
	return out
}

// ValueNilEdges returns the edges on which value v (or a phi merging it) is
// known to be nil (want=true) or non-nil (want=false).
func ValueNilEdges(v ssa.Value, wantNil bool) []Edge {
	var out []Edge
	seen := map[ssa.Value]bool{}
	var visit func(v ssa.Value)
	visit = func(v ssa.Value) {
		if seen[v] {
			return
		}
		seen[v] = true
		refs := v.Referrers()
		if refs == nil {
			return
		}
		for _, r := range *refs {
			switch x := r.(type) {
			case *ssa.BinOp:
				if x.Op != token.EQL && x.Op != token.NEQ {
					continue
				}
				other := x.Y
				if x.Y == v {
					other = x.X
				}
				c, ok := other.(*ssa.Const)
				if !ok || c.Value != nil {
					continue
				}
				// find Ifs using x (possibly through !)
				out = append(out, boolEdges(x, (x.Op == token.EQL) == wantNil)...)
			case *ssa.Phi:
				visit(x)
			case *ssa.MakeInterface, *ssa.ChangeInterface, *ssa.ChangeType:
				visit(x.(ssa.Value))
			case *ssa.Store:
				// v spilled to a local (named result, captured variable): loads that can only see this store carry v
				a, ok := x.Addr.(*ssa.Alloc)
				if !ok || x.Val != v || a.Referrers() == nil {
					continue
				}
				for _, ar := range *a.Referrers() {
					ld, ok := ar.(*ssa.UnOp)
					if !ok || ld.Op != token.MUL {
						continue
					}
					vals, _ := ReachingStores(a, ld)
					only := len(vals) > 0
					for _, rv := range vals {
						if rv != v {
							only = false
						}
					}
					if only {
						visit(ld)
					}
				}
			}
		}
	}
	visit(v)
	return out
}

// boolEdges: the edges on which boolean value b == want, for every If that
// tests b directly or through negation.
func boolEdges(b ssa.Value, want bool) []Edge {
	var out []Edge
	refs := b.Referrers()
	if refs == nil {
		return nil
	}
	for _, r := range *refs {
		switch x := r.(type) {
		case *ssa.If:
			if want {
				out = append(out, Edge{x.Block(), 0})
			} else {
				out = append(out, Edge{x.Block(), 1})
			}
		case *ssa.UnOp:
			if x.Op == token.NOT {
				out = append(out, boolEdges(x, !want)...)
			}
		}
	}
	return out
}

// BoolEdges is exported for rules that hold a boolean SSA value.
func BoolEdges(b ssa.Value, want bool) []Edge { return boolEdges(b, want) }

var errorType = types.Universe.Lookup("error").Type()

// ErrValue returns the SSA value of the error result of call, nil if the
// callee has no error result or the result is discarded.
func ErrValue(call ssa.CallInstruction) ssa.Value {
	cv, ok := call.(*ssa.Call)
	if !ok {
		return nil
	}
	sig := call.Common().Signature()
	res := sig.Results()
	if res.Len() == 0 {
		return nil
	}
	last := res.Len() - 1
	if !types.Identical(res.At(last).Type(), errorType) {
		return nil
	}
	if res.Len() == 1 {
		return cv
	}
	if cv.Referrers() == nil {
		return nil
	}
	for _, r := range *cv.Referrers() {
		if e, ok := r.(*ssa.Extract); ok && e.Index == last {
			return e
		}
	}
	return nil
}

// ResultValue returns the i-th result value of call (Extract or the call).
func ResultValue(call ssa.CallInstruction, i int) ssa.Value {
	cv, ok := call.(*ssa.Call)
	if !ok {
		return nil
	}
	res := call.Common().Signature().Results()
	if res.Len() == 1 && i == 0 {
		return cv
	}
	if cv.Referrers() == nil {
		return nil
	}
	for _, r := range *cv.Referrers() {
		if e, ok := r.(*ssa.Extract); ok && e.Index == i {
			return e
		}
	}
	return nil
}

// CallOKEdges: edges on which the error result of call is nil.
func CallOKEdges(call ssa.CallInstruction) []Edge {
	ev := ErrValue(call)
	if ev == nil {
		return nil
	}
	return ValueNilEdges(ev, true)
}

// CallFailEdges: edges on which the error result of call is non-nil.
func CallFailEdges(call ssa.CallInstruction) []Edge {
	ev := ErrValue(call)
	if ev == nil {
		return nil
	}
	return ValueNilEdges(ev, false)
}

// ---------------------------------------------------------------------------

// Query describes a reachability question on one function's CFG.
type Query struct {
	Fn *ssa.Function
	// Start: entry of Fn when all three are empty.
	StartEdges []Edge
	StartAfter ssa.Instruction
	// Blocked edges cannot be crossed (the guard edges of a CUT rule).
	Blocked []Edge
	// Barrier instructions end a path when executed (must-pass-through rules).
	Barriers []ssa.Instruction
	// Assume fixes the value of normalised conditions matching the regexps
	// (call-site specialisation: "unauth" => false).
	Assume map[string]bool
	// Target instructions.
	Target func(ssa.Instruction) bool
}

// Hit is a reached target with a witness path.
type Hit struct {
	Instr   ssa.Instruction
	Witness []string
}

type atomInfo struct {
	defBlocks map[*ssa.BasicBlock]bool
}

// fnAtoms: atoms (facts tested by >= 2 Ifs, or assumed) -> blocks that
// (re)define an operand of the fact.
func fnAtoms(fn *ssa.Function, assume map[string]*regexp.Regexp) (map[*ssa.If]NormCond, map[string]*atomInfo) {
	norm := map[*ssa.If]NormCond{}
	count := map[string]int{}
	for _, b := range fn.Blocks {
		if ifi := IfOf(b); ifi != nil {
			nc := Normalize(ifi.Cond)
			norm[ifi] = nc
			count[nc.Atom]++
		}
	}
	atoms := map[string]*atomInfo{}
	for ifi, nc := range norm {
		tracked := count[nc.Atom] >= 2
		for _, re := range assume {
			if nc.Matches(re) {
				tracked = true
			}
		}
		if !tracked {
			continue
		}
		if atoms[nc.Atom] == nil {
			ai := &atomInfo{defBlocks: map[*ssa.BasicBlock]bool{}}
			var ops []ssa.Value
			if bo, ok := nc.Val.(*ssa.BinOp); ok {
				ops = []ssa.Value{bo.X, bo.Y}
			} else {
				ops = []ssa.Value{nc.Val}
			}
			for _, o := range ops {
				if in, ok := o.(ssa.Instruction); ok && in.Block() != nil {
					ai.defBlocks[in.Block()] = true
				}
			}
			atoms[nc.Atom] = ai
		}
		_ = ifi
	}
	if len(atoms) > 14 {
		// keep the state space bounded: drop atoms beyond the bound (sound:
		// fewer atoms = more paths considered feasible).
		keys := make([]string, 0, len(atoms))
		for k := range atoms {
			keys = append(keys, k)
		}
		sort.Slice(keys, func(i, j int) bool {
			return count[keys[i]] > count[keys[j]] || (count[keys[i]] == count[keys[j]] && keys[i] < keys[j])
		})
		for _, k := range keys[14:] {
			delete(atoms, k)
		}
	}
	return norm, atoms
}

type state struct {
	b   *ssa.BasicBlock
	env string
}

func envSet(env string, atom string, val bool) (string, bool) {
	// env is a ';'-joined sorted list of atom=0/1
	want := "0"
	if val {
		want = "1"
	}
	var parts []string
	if env != "" {
		parts = strings.Split(env, ";")
	}
	for _, p := range parts {
		k := p[:len(p)-2]
		if k == atom {
			return env, p[len(p)-1:] == want
		}
	}
	parts = append(parts, atom+"="+want)
	sort.Strings(parts)
	return strings.Join(parts, ";"), true
}

func envDrop(env string, atoms map[string]*atomInfo, b *ssa.BasicBlock) string {
	if env == "" {
		return env
	}
	parts := strings.Split(env, ";")
	out := parts[:0]
	for _, p := range parts {
		k := p[:len(p)-2]
		if ai := atoms[k]; ai != nil && ai.defBlocks[b] {
			continue
		}
		out = append(out, p)
	}
	return strings.Join(out, ";")
}

// Reach answers q: the first target reachable under the constraints, or nil.
// Paths are CFG paths; facts tested more than once (same SSA operands) are
// kept consistent along a path; everything else is over-approximated, so
// "unreachable" is sound for every real execution.
func Reach(q Query) *Hit {
	fn := q.Fn
	if len(fn.Blocks) == 0 {
		return nil
	}
	assumeRe := map[string]*regexp.Regexp{}
	for k := range q.Assume {
		assumeRe[k] = regexp.MustCompile(k)
	}
	norm, atoms := fnAtoms(fn, assumeRe)
	blocked := map[Edge]bool{}
	for _, e := range q.Blocked {
		blocked[e] = true
	}
	barrier := map[ssa.Instruction]bool{}
	for _, i := range q.Barriers {
		barrier[i] = true
	}
	type item struct {
		st   state
		from int // index into trail
		note string
		idx  int // start instruction index within block
	}
	var trail []item
	seen := map[state]bool{}
	var queue []int
	push := func(b *ssa.BasicBlock, env string, from int, note string, idx int) {
		env = envDrop(env, atoms, b)
		st := state{b, env}
		if idx == 0 {
			if seen[st] {
				return
			}
			seen[st] = true
		}
		trail = append(trail, item{st, from, note, idx})
		queue = append(queue, len(trail)-1)
	}
	witness := func(i int, last string) []string {
		var w []string
		for j := i; j >= 0; j = trail[j].from {
			it := trail[j]
			s := fmt.Sprintf("b%d", it.st.b.Index)
			if it.st.b.Comment != "" {
				s += "(" + it.st.b.Comment + ")"
			}
			if it.note != "" {
				s = it.note + " -> " + s
			}
			w = append(w, s)
			if trail[j].from < 0 {
				break
			}
		}
		for l, r := 0, len(w)-1; l < r; l, r = l+1, r-1 {
			w[l], w[r] = w[r], w[l]
		}
		if last != "" {
			w = append(w, last)
		}
		return w
	}
	switch {
	case q.StartAfter != nil:
		b := q.StartAfter.Block()
		idx := 0
		for i, in := range b.Instrs {
			if in == q.StartAfter {
				idx = i + 1
			}
		}
		push(b, "", -1, "after "+instrStr(q.StartAfter), idx)
	case len(q.StartEdges) > 0:
		for _, e := range q.StartEdges {
			env := ""
			if ifi := IfOf(e.From); ifi != nil {
				nc := norm[ifi]
				if atoms[nc.Atom] != nil {
					env, _ = envSet("", nc.Atom, (e.Succ == 0) == nc.Pol)
				}
			}
			push(e.To(), env, -1, fmt.Sprintf("edge b%d.%d", e.From.Index, e.Succ), 0)
		}
	default:
		push(fn.Blocks[0], "", -1, "entry", 0)
	}
	for len(queue) > 0 {
		cur := queue[0]
		queue = queue[1:]
		it := trail[cur]
		b := it.st.b
		stopped := false
		for i := it.idx; i < len(b.Instrs); i++ {
			in := b.Instrs[i]
			if q.Target != nil && q.Target(in) {
				return &Hit{in, witness(cur, "reaches "+instrStr(in))}
			}
			if barrier[in] {
				stopped = true
				break
			}
		}
		if stopped {
			continue
		}
		ifi := IfOf(b)
		for si, succ := range b.Succs {
			e := Edge{b, si}
			if blocked[e] {
				continue
			}
			env := it.st.env
			note := ""
			if ifi != nil {
				nc := norm[ifi]
				val := (si == 0) == nc.Pol // value of Base on this edge
				note = fmt.Sprintf("[%s]=%v", nc.Base, val)
				// assumption?
				skip := false
				for k, re := range assumeRe {
					if nc.Matches(re) && q.Assume[k] != val {
						skip = true
					}
				}
				if skip {
					continue
				}
				if atoms[nc.Atom] != nil {
					var ok bool
					env, ok = envSet(env, nc.Atom, val)
					if !ok {
						continue
					}
				}
			}
			push(succ, env, cur, note, 0)
		}
	}
	return nil
}

func instrStr(in ssa.Instruction) string {
	switch x := in.(type) {
	case ssa.CallInstruction:
		pre := ""
		switch x.(type) {
		case *ssa.Defer:
			pre = "defer "
		case *ssa.Go:
			pre = "go "
		}
		return pre + "call " + calleeName(x.Common())
	case *ssa.Store:
		return "store " + Expr(x.Addr) + " = " + Expr(x.Val)
	case *ssa.Return:
		var rs []string
		for _, r := range x.Results {
			rs = append(rs, Expr(r))
		}
		return "return " + strings.Join(rs, ", ")
	case *ssa.If:
		return "if " + Expr(x.Cond)
	case ssa.Value:
		return x.Name() + " = " + Expr(x)
	}
	return in.String()
}

// InstrStr renders an instruction for reports.
func InstrStr(in ssa.Instruction) string { return instrStr(in) }

// ---------------------------------------------------------------------------
// Site finders

// Calls returns the call instructions (call, defer, go) in fn whose callee
// display name matches pat (regexp on CalleeName).
func Calls(fn *ssa.Function, pat string) []ssa.CallInstruction {
	re := regexp.MustCompile(pat)
	var out []ssa.CallInstruction
	for _, b := range fn.Blocks {
		for _, in := range b.Instrs {
			if c, ok := in.(ssa.CallInstruction); ok {
				if re.MatchString(calleeName(c.Common())) {
					out = append(out, c)
				}
			}
		}
	}
	return out
}

// Returns lists the Return instructions of fn.
func Returns(fn *ssa.Function) []*ssa.Return {
	var out []*ssa.Return
	for _, b := range fn.Blocks {
		// the synthetic block a recovered panic resumes in (functions with a defer) is not an exit
		// the source wrote; it returns the result cells as they are
		if b == fn.Recover {
			continue
		}
		for _, in := range b.Instrs {
			if r, ok := in.(*ssa.Return); ok {
				out = append(out, r)
			}
		}
	}
	return out
}

// Stores returns the Store instructions in fn whose address renders matching pat.
func Stores(fn *ssa.Function, pat string) []*ssa.Store {
	re := regexp.MustCompile(pat)
	var out []*ssa.Store
	for _, b := range fn.Blocks {
		for _, in := range b.Instrs {
			if s, ok := in.(*ssa.Store); ok && re.MatchString(Expr(s.Addr)) {
				out = append(out, s)
			}
		}
	}
	return out
}

// Instrs returns every instruction of fn satisfying pred.
func Instrs(fn *ssa.Function, pred func(ssa.Instruction) bool) []ssa.Instruction {
	var out []ssa.Instruction
	for _, b := range fn.Blocks {
		for _, in := range b.Instrs {
			if pred(in) {
				out = append(out, in)
			}
		}
	}
	return out
}

// Closures returns the anonymous functions of fn (recursively) in source order.
func Closures(fn *ssa.Function) []*ssa.Function {
	var out []*ssa.Function
	var walk func(f *ssa.Function)
	walk = func(f *ssa.Function) {
		for _, a := range f.AnonFuncs {
			out = append(out, a)
			walk(a)
		}
	}
	walk(fn)
	return out
}

// DeferredClosures returns the closures deferred by fn.
func DeferredClosures(fn *ssa.Function) []*ssa.Function {
	var out []*ssa.Function
	for _, b := range fn.Blocks {
		for _, in := range b.Instrs {
			if d, ok := in.(*ssa.Defer); ok {
				if mc, ok := d.Call.Value.(*ssa.MakeClosure); ok {
					out = append(out, mc.Fn.(*ssa.Function))
				}
			}
		}
	}
	return out
}

// IsTarget builds a Target predicate from a set of instructions.
func IsTarget[T ssa.Instruction](ins []T) func(ssa.Instruction) bool {
	m := map[ssa.Instruction]bool{}
	for _, i := range ins {
		m[i] = true
	}
	return func(in ssa.Instruction) bool { return m[in] }
}

// AsInstrs converts a typed slice to []ssa.Instruction.
func AsInstrs[T ssa.Instruction](ins []T) []ssa.Instruction {
	out := make([]ssa.Instruction, len(ins))
	for i, x := range ins {
		out[i] = x
	}
	return out
}

// PhiEdgeSinks returns, for every phi in fn whose Comment (source variable
// name) matches name, the terminators of the predecessor blocks that feed the
// phi a value satisfying pred — "the assignment x = v" as a program point.
func PhiEdgeSinks(fn *ssa.Function, name string, pred func(v ssa.Value) bool) []ssa.Instruction {
	var out []ssa.Instruction
	seen := map[ssa.Instruction]bool{}
	for _, b := range fn.Blocks {
		for _, in := range b.Instrs {
			phi, ok := in.(*ssa.Phi)
			if !ok {
				break
			}
			if VarName(phi) != name {
				continue
			}
			for i, e := range phi.Edges {
				if _, isPhi := e.(*ssa.Phi); isPhi {
					continue
				}
				if pred(e) {
					pb := b.Preds[i]
					t := pb.Instrs[len(pb.Instrs)-1]
					if !seen[t] {
						seen[t] = true
						out = append(out, t)
					}
				}
			}
		}
	}
	return out
}

// EdgeIfs returns the If instructions that own the given edges.
func EdgeIfs(edges []Edge) []ssa.Instruction {
	var out []ssa.Instruction
	seen := map[ssa.Instruction]bool{}
	for _, e := range edges {
		t := e.From.Instrs[len(e.From.Instrs)-1]
		if !seen[t] {
			seen[t] = true
			out = append(out, t)
		}
	}
	return out
}

// PhiEdges is PhiEdgeSinks at edge granularity: the CFG edges (pred block,
// successor index) through which a value satisfying pred flows into a phi
// named `name`.
func PhiEdges(fn *ssa.Function, name string, pred func(v ssa.Value) bool) []Edge {
	var out []Edge
	seen := map[Edge]bool{}
	for _, b := range fn.Blocks {
		for _, in := range b.Instrs {
			phi, ok := in.(*ssa.Phi)
			if !ok {
				break
			}
			if VarName(phi) != name {
				continue
			}
			for i, e := range phi.Edges {
				if ep, isPhi := e.(*ssa.Phi); (isPhi && VarName(ep) == name) || !pred(e) {
					continue
				}
				pb := b.Preds[i]
				for si, s := range pb.Succs {
					if s == b {
						ed := Edge{pb, si}
						if !seen[ed] {
							seen[ed] = true
							out = append(out, ed)
						}
					}
				}
			}
		}
	}
	return out
}

// Nearest keeps, among candidate guard edges, those whose If can reach one of
// the sinks without passing through the If of another candidate — "the check
// closest to the sink" when the same test is spelled several times.
func Nearest(fn *ssa.Function, edges []Edge, sinks []ssa.Instruction) []Edge {
	ifs := EdgeIfs(edges)
	var out []Edge
	for _, e := range edges {
		self := e.From.Instrs[len(e.From.Instrs)-1]
		var others []ssa.Instruction
		for _, i := range ifs {
			if i != self {
				others = append(others, i)
			}
		}
		h := Reach(Query{Fn: fn, StartEdges: []Edge{{e.From, 0}, {e.From, 1}}, Barriers: others, Target: IsTarget(sinks)})
		if h != nil {
			out = append(out, e)
		}
	}
	return out
}

// CallOKEdgesDirect: nil-error edges of branches that test the call's own
// error value (not a variable the error was merged into).
func CallOKEdgesDirect(call ssa.CallInstruction) []Edge {
	ev := ErrValue(call)
	if ev == nil || ev.Referrers() == nil {
		return nil
	}
	var out []Edge
	for _, r := range *ev.Referrers() {
		x, ok := r.(*ssa.BinOp)
		if !ok || (x.Op != token.EQL && x.Op != token.NEQ) {
			continue
		}
		other := x.Y
		if x.Y == ev {
			other = x.X
		}
		if c, ok := other.(*ssa.Const); !ok || c.Value != nil {
			continue
		}
		out = append(out, boolEdges(x, x.Op == token.EQL)...)
	}
	return out
}
