package eng

import (
	"go/ast"
	"go/constant"
	"go/token"
	"go/types"
	"strconv"
)

// VarLitConsts returns the constant values of the elements of the composite
// literal initialising package-level variable `name` of package `alias`
// (slice/array literal: element values; map literal: "key=value"). Values are
// the type-checker's constants, not source text.
func (p *Prog) VarLitConsts(alias, name string) ([]string, token.Pos, bool) {
	pk := p.Pkg(alias)
	if pk == nil {
		return nil, token.NoPos, false
	}
	for _, f := range pk.Syntax {
		for _, d := range f.Decls {
			gd, ok := d.(*ast.GenDecl)
			if !ok || gd.Tok != token.VAR {
				continue
			}
			for _, sp := range gd.Specs {
				vs := sp.(*ast.ValueSpec)
				for i, n := range vs.Names {
					if n.Name != name || i >= len(vs.Values) {
						continue
					}
					cl, ok := vs.Values[i].(*ast.CompositeLit)
					if !ok {
						return nil, n.Pos(), false
					}
					var out []string
					for _, e := range cl.Elts {
						if kv, ok := e.(*ast.KeyValueExpr); ok {
							out = append(out, constOf(pk.TypesInfo, kv.Key)+"="+constOf(pk.TypesInfo, kv.Value))
						} else {
							out = append(out, constOf(pk.TypesInfo, e))
						}
					}
					return out, n.Pos(), true
				}
			}
		}
	}
	return nil, token.NoPos, false
}

func constOf(info *types.Info, e ast.Expr) string {
	if tv, ok := info.Types[e]; ok && tv.Value != nil {
		if tv.Value.Kind() == constant.String {
			return constant.StringVal(tv.Value)
		}
		return tv.Value.ExactString()
	}
	return "?" + strconv.Itoa(int(e.Pos()))
}

// ConstValue returns the value of package-level constant alias.Name.
func (p *Prog) ConstValue(short string) (string, bool) {
	o := p.Object(short)
	c, ok := o.(*types.Const)
	if !ok {
		return "", false
	}
	if c.Val().Kind() == constant.String {
		return constant.StringVal(c.Val()), true
	}
	return c.Val().ExactString(), true
}

// ImportedConst resolves a constant of a package imported by `fromAlias`
// (e.g. reflectwalk.MapKey seen from package audit) to its exact value.
func (p *Prog) ImportedConst(fromAlias, importPath, name string) (string, bool) {
	pk := p.Pkg(fromAlias)
	if pk == nil {
		return "", false
	}
	ip := pk.Imports[importPath]
	if ip == nil || ip.Types == nil {
		return "", false
	}
	c, ok := ip.Types.Scope().Lookup(name).(*types.Const)
	if !ok {
		return "", false
	}
	if c.Val().Kind() == constant.String {
		return constant.StringVal(c.Val()), true
	}
	return c.Val().ExactString(), true
}
