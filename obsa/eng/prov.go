package eng

import (
	"go/token"
	"go/types"
	"regexp"
	"sort"
	"strings"

	"golang.org/x/tools/go/ssa"
)

// Origin is a leaf of the backward def-use walk from a value.
type Origin struct {
	Kind string    // call | param | const | global | field | alloc | freevar | op | other
	Desc string    // rendering (callee name for calls, field path for fields, ...)
	Val  ssa.Value // the leaf value
}

// Origins walks backwards from v through the value-preserving instructions
// (phi, extract, conversions, slicing, interface boxing, loads of locals and
// of fields of locally built structs) and returns the leaves. It is
// intraprocedural and flow-insensitive for locals (every store to the local
// counts), i.e. it over-approximates where a value may come from.
func Origins(v ssa.Value) []Origin {
	var out []Origin
	seen := map[ssa.Value]bool{}
	var walk func(v ssa.Value)
	add := func(kind, desc string, v ssa.Value) { out = append(out, Origin{kind, desc, v}) }
	walk = func(v ssa.Value) {
		if v == nil || seen[v] {
			return
		}
		seen[v] = true
		switch x := v.(type) {
		case *ssa.Phi:
			for _, e := range x.Edges {
				walk(e)
			}
		case *ssa.Extract:
			if c, ok := x.Tuple.(*ssa.Call); ok {
				add("call", calleeName(&c.Call)+"#"+itoa(x.Index), x)
			} else {
				add("other", Expr(x), x)
			}
		case *ssa.Call:
			add("call", calleeName(&x.Call), x)
		case *ssa.ChangeType:
			walk(x.X)
		case *ssa.Convert:
			walk(x.X)
		case *ssa.ChangeInterface:
			walk(x.X)
		case *ssa.MakeInterface:
			walk(x.X)
		case *ssa.Slice:
			walk(x.X)
		case *ssa.TypeAssert:
			walk(x.X)
		case *ssa.Parameter:
			add("param", VarName(x), x)
		case *ssa.FreeVar:
			add("freevar", VarName(x), x)
		case *ssa.Const:
			add("const", constStr(x), x)
		case *ssa.Global:
			add("global", Short(x.String()), x)
		case *ssa.Function:
			add("func", FuncName(x), x)
		case *ssa.MakeClosure:
			add("func", "closure:"+FuncName(x.Fn.(*ssa.Function)), x)
		case *ssa.Alloc:
			// address of a local: the values stored through it
			if !allocStores(x, walk) {
				add("alloc", Expr(x), x)
			}
		case *ssa.UnOp:
			if x.Op == token.MUL {
				switch a := x.X.(type) {
				case *ssa.Alloc:
					if !allocStores(a, walk) {
						add("alloc", Expr(a), x)
					}
					return
				case *ssa.FieldAddr:
					// field of a locally built struct?
					if base, ok := a.X.(*ssa.Alloc); ok {
						found := false
						if refs := base.Referrers(); refs != nil {
							for _, r := range *refs {
								if fa, ok := r.(*ssa.FieldAddr); ok && fa.Field == a.Field {
									if fr := fa.Referrers(); fr != nil {
										for _, rr := range *fr {
											if st, ok := rr.(*ssa.Store); ok && st.Addr == fa {
												found = true
												walk(st.Val)
											}
										}
									}
								}
							}
						}
						if found {
							return
						}
					}
					add("field", Expr(x), x)
					return
				case *ssa.Global:
					add("global", Short(a.String()), x)
					return
				case *ssa.FreeVar:
					add("freevar", VarName(a), x)
					return
				}
				add("op", Expr(x), x)
				return
			}
			add("op", Expr(x), x)
		case *ssa.Field:
			add("field", Expr(x), x)
		case *ssa.BinOp:
			// string concatenation: the value is built from both operands
			if b, ok := x.Type().Underlying().(*types.Basic); ok && x.Op == token.ADD && b.Info()&types.IsString != 0 {
				walk(x.X)
				walk(x.Y)
				return
			}
			add("op", Expr(x), x)
		default:
			add("other", Expr(v), v)
		}
	}
	walk(v)
	sort.SliceStable(out, func(i, j int) bool { return out[i].Kind+out[i].Desc < out[j].Kind+out[j].Desc })
	return out
}

// allocStores walks every value stored directly into alloc a; false if none.
func allocStores(a *ssa.Alloc, walk func(ssa.Value)) bool {
	found := false
	if refs := a.Referrers(); refs != nil {
		for _, r := range *refs {
			if st, ok := r.(*ssa.Store); ok && st.Addr == a {
				found = true
				walk(st.Val)
			}
		}
	}
	return found
}

func itoa(i int) string {
	if i == 0 {
		return "0"
	}
	s := ""
	for i > 0 {
		s = string(rune('0'+i%10)) + s
		i /= 10
	}
	return s
}

// OriginsMatch reports whether every origin of v matches one of the allowed
// patterns ("kind:desc" regexps); returns the first offending origin.
func OriginsMatch(v ssa.Value, allowed ...string) (bool, string, []string) {
	var res []*regexp.Regexp
	for _, a := range allowed {
		res = append(res, regexp.MustCompile(a))
	}
	var all []string
	okAll := true
	bad := ""
	for _, o := range Origins(v) {
		s := o.Kind + ":" + o.Desc
		all = append(all, s)
		ok := false
		for _, re := range res {
			if re.MatchString(s) {
				ok = true
				break
			}
		}
		if !ok && okAll {
			okAll = false
			bad = s
		}
	}
	return okAll, bad, all
}

// StructLitField returns the values stored into field `name` of the struct
// allocated (or addressed) by base inside its function, e.g. the NumUses of a
// &TokenEntry{...} literal.
func StructLitField(base ssa.Value, name string) []ssa.Value {
	var out []ssa.Value
	refs := base.Referrers()
	if refs == nil {
		return nil
	}
	for _, r := range *refs {
		// x := T{...} with x escaping: a temporary literal is built and copied in whole
		if st, ok := r.(*ssa.Store); ok && st.Addr == base {
			if ld, ok := st.Val.(*ssa.UnOp); ok && ld.Op == token.MUL {
				if tmp, ok := ld.X.(*ssa.Alloc); ok && tmp != base {
					out = append(out, StructLitField(tmp, name)...)
				}
			}
			continue
		}
		fa, ok := r.(*ssa.FieldAddr)
		if !ok {
			continue
		}
		if fieldName(fa.X.Type(), fa.Field) != name {
			continue
		}
		if fr := fa.Referrers(); fr != nil {
			for _, rr := range *fr {
				if st, ok := rr.(*ssa.Store); ok && st.Addr == fa {
					out = append(out, st.Val)
				}
			}
		}
	}
	return out
}

// ---------------------------------------------------------------------------
// Whole-program site scans

// CallSite is a call found by a program-wide scan.
type CallSite struct {
	Fn   *ssa.Function // enclosing function (possibly anonymous)
	Call ssa.CallInstruction
}

// CalleeMatcher decides whether a call targets the callee set of a rule.
type CalleeMatcher func(c *ssa.CallCommon) bool

// StaticCallee matches direct calls to any of the named functions (short names).
func (p *Prog) StaticCallee(shorts ...string) (CalleeMatcher, []string) {
	set := map[*ssa.Function]bool{}
	var missing []string
	for _, s := range shorts {
		f := p.Func(s)
		if f == nil {
			missing = append(missing, s)
			continue
		}
		set[f] = true
	}
	return func(c *ssa.CallCommon) bool {
		if f := c.StaticCallee(); f != nil {
			if set[f] {
				return true
			}
			if o := f.Origin(); o != nil && set[o] {
				return true
			}
		}
		// method value / bound method closures: `f := x.M; f(...)` calls the synthetic wrapper M$bound
		if mc, ok := c.Value.(*ssa.MakeClosure); ok {
			if f, ok := mc.Fn.(*ssa.Function); ok {
				if set[f] {
					return true
				}
				if u := p.UnwrapSynthetic(f); u != nil && (set[u] || (u.Origin() != nil && set[u.Origin()])) {
					return true
				}
			}
		}
		return false
	}, missing
}

// UnwrapSynthetic: the declared method behind a synthetic wrapper (bound method
// value `x.M`, method expression thunk `T.M`), nil for anything else or for an
// interface method (which has no body).
func (p *Prog) UnwrapSynthetic(f *ssa.Function) *ssa.Function {
	if f == nil || f.Synthetic == "" {
		return nil
	}
	if !strings.HasPrefix(f.Synthetic, "bound method wrapper") && !strings.HasPrefix(f.Synthetic, "thunk") {
		return nil
	}
	obj, ok := f.Object().(*types.Func)
	if !ok || obj == nil {
		return nil
	}
	return p.SSA.FuncValue(obj)
}

// IfaceCallee matches (a) invokes of method `name` on any interface type
// that is, embeds or is satisfied-by-declaration the named interface
// (i.e. the static interface type has the named interface's method set), and
// (b) static calls of method `name` on a concrete type implementing the
// interface.
func (p *Prog) IfaceCallee(ifaceShort string, names ...string) (CalleeMatcher, bool) {
	n := p.NamedType(ifaceShort)
	if n == nil {
		return nil, false
	}
	it, ok := n.Underlying().(*types.Interface)
	if !ok {
		return nil, false
	}
	want := map[string]bool{}
	for _, nm := range names {
		want[nm] = true
	}
	return func(c *ssa.CallCommon) bool {
		if c.IsInvoke() {
			if !want[c.Method.Name()] {
				return false
			}
			return types.Implements(c.Value.Type(), it)
		}
		// `f := iface.M; f(...)`: a call of the bound-method wrapper of an interface method
		if mc, ok := c.Value.(*ssa.MakeClosure); ok && len(mc.Bindings) == 1 {
			if w, ok := mc.Fn.(*ssa.Function); ok && strings.HasPrefix(w.Synthetic, "bound method wrapper") {
				if obj, ok := w.Object().(*types.Func); ok && obj != nil && want[obj.Name()] {
					rt := mc.Bindings[0].Type()
					return types.Implements(rt, it) || types.Implements(types.NewPointer(rt), it)
				}
			}
		}
		f := c.StaticCallee()
		if f == nil || f.Signature.Recv() == nil || !want[f.Name()] {
			return false
		}
		rt := f.Signature.Recv().Type()
		return types.Implements(rt, it) || types.Implements(types.NewPointer(rt), it)
	}, true
}

// AnyOf combines matchers.
func AnyOf(ms ...CalleeMatcher) CalleeMatcher {
	return func(c *ssa.CallCommon) bool {
		for _, m := range ms {
			if m != nil && m(c) {
				return true
			}
		}
		return false
	}
}

// FindCalls scans every loaded function body (optionally filtered) for calls
// matching m.
func (p *Prog) FindCalls(m CalleeMatcher, filter func(fn *ssa.Function) bool) []CallSite {
	var out []CallSite
	for _, fn := range p.Funcs {
		if filter != nil && !filter(fn) {
			continue
		}
		for _, b := range fn.Blocks {
			for _, in := range b.Instrs {
				if c, ok := in.(ssa.CallInstruction); ok && m(c.Common()) {
					out = append(out, CallSite{fn, c})
				}
			}
		}
	}
	return out
}

// FuncValueUses finds places where one of the named functions is used as a
// value (method value, passed as callback) rather than called directly —
// a who-may-call table must account for those as well.
func (p *Prog) FuncValueUses(shorts ...string) []CallSite {
	set := map[*ssa.Function]bool{}
	for _, s := range shorts {
		if f := p.Func(s); f != nil {
			set[f] = true
		}
	}
	var out []CallSite
	for _, fn := range p.Funcs {
		for _, b := range fn.Blocks {
			for _, in := range b.Instrs {
				var ops []*ssa.Value
				ops = in.Operands(ops)
				for k, op := range ops {
					if op == nil || *op == nil {
						continue
					}
					f, ok := (*op).(*ssa.Function)
					if !ok {
						continue
					}
					if !set[f] {
						// a bound method value `x.M` names the wrapper M$bound, not M
						if u := p.UnwrapSynthetic(f); u == nil || !(set[u] || (u.Origin() != nil && set[u.Origin()])) {
							continue
						}
					}
					// direct call position?
					if c, ok := in.(ssa.CallInstruction); ok && k == 0 && c.Common().Value == f {
						continue
					}
					ci, _ := in.(ssa.CallInstruction)
					out = append(out, CallSite{fn, ci})
				}
			}
		}
	}
	return out
}

// FieldStore is a store to a tracked struct field.
type FieldStore struct {
	Fn    *ssa.Function
	Store *ssa.Store
	Addr  *ssa.FieldAddr
}

// FieldWriters returns every Store through a FieldAddr of field f in the
// loaded program (composite literals included: they lower to the same shape).
func (p *Prog) FieldWriters(f *types.Var) []FieldStore {
	var out []FieldStore
	for _, fn := range p.Funcs {
		for _, b := range fn.Blocks {
			for _, in := range b.Instrs {
				st, ok := in.(*ssa.Store)
				if !ok {
					continue
				}
				fa, ok := st.Addr.(*ssa.FieldAddr)
				if !ok {
					continue
				}
				if fv := FieldVar(fa); fv != nil && (fv == f || fv.Origin() == f) {
					out = append(out, FieldStore{fn, st, fa})
				}
			}
		}
	}
	return out
}

// FieldReads returns every load of field f (FieldAddr+load or Field) per function.
func (p *Prog) FieldReads(f *types.Var, filter func(fn *ssa.Function) bool) []CallSite {
	var out []CallSite
	for _, fn := range p.Funcs {
		if filter != nil && !filter(fn) {
			continue
		}
		for _, b := range fn.Blocks {
			for _, in := range b.Instrs {
				switch x := in.(type) {
				case *ssa.FieldAddr:
					if fv := FieldVar(x); fv != nil && (fv == f || fv.Origin() == f) {
						out = append(out, CallSite{fn, nil})
					}
				case *ssa.Field:
					if fv := FieldVar(x); fv != nil && (fv == f || fv.Origin() == f) {
						out = append(out, CallSite{fn, nil})
					}
				}
			}
		}
	}
	return out
}

// Feas describes which blocks/edges of a function are feasible under a set of
// assumed condition values (e.g. config.Raw == false).
type Feas struct {
	Reach map[*ssa.BasicBlock]bool
	bad   map[Edge]bool
}

// Feasible computes reachability from the entry when the normalised
// conditions matching the assume patterns are fixed.
func Feasible(fn *ssa.Function, assume map[string]bool) *Feas {
	res := map[string]*regexp.Regexp{}
	for k := range assume {
		res[k] = regexp.MustCompile(k)
	}
	fe := &Feas{Reach: map[*ssa.BasicBlock]bool{}, bad: map[Edge]bool{}}
	for _, b := range fn.Blocks {
		if ifi := IfOf(b); ifi != nil {
			nc := Normalize(ifi.Cond)
			for k, re := range res {
				if nc.Matches(re) {
					for si := range b.Succs {
						val := (si == 0) == nc.Pol
						if val != assume[k] {
							fe.bad[Edge{b, si}] = true
						}
					}
				}
			}
		}
	}
	if len(fn.Blocks) == 0 {
		return fe
	}
	stack := []*ssa.BasicBlock{fn.Blocks[0]}
	for len(stack) > 0 {
		b := stack[len(stack)-1]
		stack = stack[:len(stack)-1]
		if fe.Reach[b] {
			continue
		}
		fe.Reach[b] = true
		for si, s := range b.Succs {
			if !fe.bad[Edge{b, si}] {
				stack = append(stack, s)
			}
		}
	}
	return fe
}

func (fe *Feas) phiEdgeOK(p *ssa.Phi, i int) bool {
	if fe == nil {
		return true
	}
	pred := p.Block().Preds[i]
	if !fe.Reach[pred] {
		return false
	}
	for si, s := range pred.Succs {
		if s == p.Block() && !fe.bad[Edge{pred, si}] {
			return true
		}
	}
	return false
}

// Roots walks from v to the values it is *read out of*: through phis (only
// feasible edges), extracts, conversions, field/index loads (to their base),
// slicing, and loads of locals (to the stored values). Calls, parameters,
// constants, globals and allocations without stores are roots.
func Roots(v ssa.Value, fe *Feas) []ssa.Value { return RootsVisit(v, fe, nil) }

// RootsVisit is Roots with a visitor called on every value on the way; the
// visitor returns true to stop descending below that value.
func RootsVisit(v ssa.Value, fe *Feas, visit func(ssa.Value) bool) []ssa.Value {
	var out []ssa.Value
	seen := map[ssa.Value]bool{}
	var walk func(v ssa.Value)
	walk = func(v ssa.Value) {
		if v == nil || seen[v] {
			return
		}
		seen[v] = true
		if visit != nil && visit(v) {
			return
		}
		switch x := v.(type) {
		case *ssa.Phi:
			for i, e := range x.Edges {
				if fe.phiEdgeOK(x, i) {
					walk(e)
				}
			}
		case *ssa.Extract:
			out = append(out, x)
		case *ssa.ChangeType:
			walk(x.X)
		case *ssa.Convert:
			walk(x.X)
		case *ssa.ChangeInterface:
			walk(x.X)
		case *ssa.MakeInterface:
			walk(x.X)
		case *ssa.Slice:
			walk(x.X)
		case *ssa.TypeAssert:
			walk(x.X)
		case *ssa.FieldAddr:
			walk(x.X)
		case *ssa.Field:
			walk(x.X)
		case *ssa.IndexAddr:
			walk(x.X)
		case *ssa.Index:
			walk(x.X)
		case *ssa.Lookup:
			walk(x.X)
		case *ssa.UnOp:
			if x.Op == token.MUL {
				if a, ok := x.X.(*ssa.Alloc); ok {
					if allocStores(a, walk) {
						return
					}
					out = append(out, a)
					return
				}
				walk(x.X)
				return
			}
			out = append(out, x)
		case *ssa.BinOp:
			walk(x.X)
			walk(x.Y)
		case *ssa.Alloc:
			// pointer to a local (e.g. new(expr)): what it points to is what was stored
			if !allocStores(x, walk) {
				out = append(out, v)
			}
		default:
			out = append(out, v)
		}
	}
	walk(v)
	return out
}

// FeasibleAfter: blocks/edges that can execute after instruction `after`
// (plain CFG). Used to resolve phis path-sensitively "given that this call
// happened".
func FeasibleAfter(after ssa.Instruction) *Feas {
	fe := &Feas{Reach: map[*ssa.BasicBlock]bool{}, bad: map[Edge]bool{}}
	start := after.Block()
	stack := append([]*ssa.BasicBlock{}, start.Succs...)
	fe.Reach[start] = true // control continues from the start block
	seen := map[*ssa.BasicBlock]bool{}
	for len(stack) > 0 {
		b := stack[len(stack)-1]
		stack = stack[:len(stack)-1]
		if seen[b] {
			continue
		}
		seen[b] = true
		fe.Reach[b] = true
		stack = append(stack, b.Succs...)
	}
	// edges INTO the start block from blocks that are not reachable after it are irrelevant;
	// phis in the start block itself were evaluated before `after`: treat them as opaque by
	// leaving their edges feasible (over-approximation).
	return fe
}
