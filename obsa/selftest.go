package main

// Thorough tier extras. Still static analysis only: the same rules are
// evaluated (a) under a second build configuration and (b) on in-memory
// overlays of /repo's current files carrying one seeded change each, to test
// the checker itself on every thorough run. Nothing of /repo is executed and
// nothing is written under /repo.

import (
	"encoding/json"
	"fmt"
	"os"
	"os/exec"
	"path/filepath"
	"regexp"
	"runtime/debug"
	"sort"
	"strconv"
	"strings"
	"sync"

	"obsa/eng"
	"obsa/props"
)

type openObl struct {
	Key    string `json:"key"`
	Status string `json:"status"`
	Clause string `json:"clause"`
	Pos    string `json:"pos"`
	Fact   string `json:"fact"`
}

type oblsOut struct {
	Status string    `json:"status"` // ok | loaderror | panic
	Msg    string    `json:"msg,omitempty"`
	NPkgs  int       `json:"packages"`
	NFuncs int       `json:"functions"`
	Total  int       `json:"obligations"`
	Open   []openObl `json:"open"`
}

// overlayFromDir maps every file under dir (mirroring repo-relative paths) to
// the corresponding absolute path in repo.
func overlayFromDir(repo, dir string) (map[string][]byte, error) {
	ov := map[string][]byte{}
	err := filepath.Walk(dir, func(p string, info os.FileInfo, err error) error {
		if err != nil || info.IsDir() {
			return err
		}
		if strings.HasSuffix(p, ".orig") || strings.HasSuffix(p, ".rej") {
			return nil
		}
		rel, _ := filepath.Rel(dir, p)
		b, err := os.ReadFile(p)
		if err != nil {
			return err
		}
		ov[filepath.Join(repo, rel)] = b
		return nil
	})
	return ov, err
}

// obls runs the rules of one property and prints the open obligations as JSON
// (used as a subprocess: one program load per process keeps memory bounded).
func obls(repo, id string) int {
	out := oblsOut{Status: "ok"}
	emit := func() int {
		b, _ := json.Marshal(out)
		fmt.Println(string(b))
		return 0
	}
	pr := props.Registry[id]
	if pr == nil {
		out.Status, out.Msg = "loaderror", "no such property"
		return emit()
	}
	var ov map[string][]byte
	if d := os.Getenv("OBSA_OVERLAY_DIR"); d != "" {
		var err error
		if ov, err = overlayFromDir(repo, d); err != nil {
			out.Status, out.Msg = "loaderror", err.Error()
			return emit()
		}
	}
	defer func() {
		if r := recover(); r != nil {
			out.Status, out.Msg = "panic", fmt.Sprint(r)+"\n"+string(debug.Stack())
			emit()
		}
	}()
	p, err := eng.Load(repo, ov)
	if err != nil {
		out.Status, out.Msg = "loaderror", err.Error()
		return emit()
	}
	c := eng.NewCtx(id, p)
	pr.Run(c, true)
	out.NPkgs, out.NFuncs, out.Total = p.NPkgs, len(p.Funcs), len(c.Obls)
	for _, o := range c.Obls {
		if o.Status != eng.Discharged {
			out.Open = append(out.Open, openObl{Key: o.Key(), Status: string(o.Status), Clause: o.Clause, Pos: o.Pos, Fact: o.Fact})
		}
	}
	return emit()
}

func runObls(repo, id string, extraEnv ...string) (*oblsOut, error) {
	self, err := os.Executable()
	if err != nil {
		return nil, err
	}
	cmd := exec.Command(self, "obls", id)
	cmd.Env = append(os.Environ(), "OBSA_REPO="+repo)
	cmd.Env = append(cmd.Env, extraEnv...)
	cmd.Stderr = nil
	b, err := cmd.Output()
	if err != nil {
		return nil, fmt.Errorf("subprocess: %v: %s", err, tail(string(b), 400))
	}
	lines := strings.Split(strings.TrimSpace(string(b)), "\n")
	var o oblsOut
	if err := json.Unmarshal([]byte(lines[len(lines)-1]), &o); err != nil {
		return nil, fmt.Errorf("subprocess output: %v: %s", err, tail(string(b), 400))
	}
	return &o, nil
}

func tail(s string, n int) string {
	if len(s) > n {
		return s[len(s)-n:]
	}
	return s
}

// ---------------------------------------------------------------------------
// mutants

type mutant struct {
	Name   string `json:"name"`
	Origin string `json:"origin"` // seeded | hand | fix-reverted
	// replacement mutants
	File string `json:"file,omitempty"`
	Old  string `json:"old,omitempty"`
	New  string `json:"new,omitempty"`
	// patch mutants (path of a unified diff, relative to /verif)
	Patch   string `json:"patch,omitempty"`
	Reverse bool   `json:"reverse,omitempty"`
	// expected: substring of the key (rule|func|site) of an obligation that must open
	Expect string `json:"expect,omitempty"`
	What   string `json:"what,omitempty"`
}

type mutantResult struct {
	Name     string   `json:"name"`
	Origin   string   `json:"origin"`
	Outcome  string   `json:"outcome"` // caught | missed | skipped | error
	Why      string   `json:"why,omitempty"`
	CaughtBy []string `json:"caught_by,omitempty"`
	What     string   `json:"what,omitempty"`
}

var plusRe = regexp.MustCompile(`(?m)^\+\+\+ b/(\S+)`)

// materialise builds the overlay directory of one mutant from /repo's CURRENT
// files; ok=false means the edit no longer applies (skipped, never a verdict).
func materialise(repo, verif string, m mutant, dir string) (bool, string) {
	cp := func(rel string) error {
		b, err := os.ReadFile(filepath.Join(repo, rel))
		if err != nil {
			return err
		}
		os.MkdirAll(filepath.Dir(filepath.Join(dir, rel)), 0o755)
		return os.WriteFile(filepath.Join(dir, rel), b, 0o644)
	}
	if m.Patch != "" {
		pb, err := os.ReadFile(filepath.Join(verif, m.Patch))
		if err != nil {
			return false, "patch file missing"
		}
		files := plusRe.FindAllStringSubmatch(string(pb), -1)
		if len(files) == 0 {
			return false, "no files in patch"
		}
		for _, f := range files {
			if strings.HasSuffix(f[1], "_test.go") {
				continue
			}
			if err := cp(f[1]); err != nil {
				if !m.Reverse && m.Origin == "neutral" {
					continue // a file the patch creates
				}
				return false, "file gone: " + f[1]
			}
		}
		args := []string{"-p1", "-s", "-f", "--no-backup-if-mismatch", "-d", dir}
		if m.Reverse {
			args = append(args, "-R")
		}
		cmd := exec.Command("patch", args...)
		cmd.Stdin = strings.NewReader(string(pb))
		if out, err := cmd.CombinedOutput(); err != nil {
			return false, "patch does not apply to the current tree: " + tail(strings.TrimSpace(string(out)), 200)
		}
		// test files are not analysed
		filepath.Walk(dir, func(p string, info os.FileInfo, err error) error {
			if err == nil && !info.IsDir() && strings.HasSuffix(p, "_test.go") {
				os.Remove(p)
			}
			return nil
		})
		return true, ""
	}
	b, err := os.ReadFile(filepath.Join(repo, m.File))
	if err != nil {
		return false, "file gone: " + m.File
	}
	if strings.Count(string(b), m.Old) != 1 {
		return false, fmt.Sprintf("anchor text occurs %d times in %s", strings.Count(string(b), m.Old), m.File)
	}
	os.MkdirAll(filepath.Dir(filepath.Join(dir, m.File)), 0o755)
	os.WriteFile(filepath.Join(dir, m.File), []byte(strings.Replace(string(b), m.Old, m.New, 1)), 0o644)
	return true, ""
}

func loadMutants(verif, id string) []mutant {
	var ms []mutant
	if b, err := os.ReadFile(filepath.Join(verif, "mutants", id+".json")); err == nil {
		if err := json.Unmarshal(b, &ms); err != nil {
			fmt.Println("SELFTEST: cannot parse mutants/" + id + ".json: " + err.Error())
		}
	}
	return ms
}

// selftest applies every mutant of the property as an overlay and requires a
// new open obligation. Never influences the verdict on /repo.
func selftest(repo, verif, id string, baseOpen map[string]bool) map[string]any {
	ms := loadMutants(verif, id)
	// OBSA_MUTANT=<regexp> restricts the run to matching mutant names (authoring aid);
	// OBSA_PAR=<n> bounds the number of concurrent subprocesses (default 4, ~1 GB each).
	if pat := os.Getenv("OBSA_MUTANT"); pat != "" {
		if re, err := regexp.Compile(pat); err == nil {
			var sel []mutant
			for _, m := range ms {
				if re.MatchString(m.Name) {
					sel = append(sel, m)
				}
			}
			ms = sel
		}
	}
	par := 4
	if n, err := strconv.Atoi(os.Getenv("OBSA_PAR")); err == nil && n > 0 {
		par = n
	}
	res := make([]mutantResult, len(ms))
	sem := make(chan struct{}, par)
	var wg sync.WaitGroup
	for i, m := range ms {
		wg.Add(1)
		go func(i int, m mutant) {
			defer wg.Done()
			sem <- struct{}{}
			defer func() { <-sem }()
			r := mutantResult{Name: m.Name, Origin: m.Origin, What: m.What}
			dir, err := os.MkdirTemp("", "obsa-mut-")
			if err != nil {
				r.Outcome, r.Why = "error", err.Error()
				res[i] = r
				return
			}
			defer os.RemoveAll(dir)
			ok, why := materialise(repo, verif, m, dir)
			if !ok {
				r.Outcome, r.Why = "skipped", why
				res[i] = r
				return
			}
			o, err := runObls(repo, id, "OBSA_OVERLAY_DIR="+dir)
			if err != nil {
				r.Outcome, r.Why = "error", err.Error()
				res[i] = r
				return
			}
			if o.Status != "ok" {
				// a mutant that does not compile is not a test of the checker
				r.Outcome, r.Why = "skipped", o.Status+": "+tail(o.Msg, 300)
				res[i] = r
				return
			}
			for _, op := range o.Open {
				if !baseOpen[op.Key] {
					if m.Expect == "" || strings.Contains(op.Key, m.Expect) {
						r.CaughtBy = append(r.CaughtBy, op.Clause+" "+op.Key)
					}
				}
			}
			sort.Strings(r.CaughtBy)
			if len(r.CaughtBy) > 4 {
				r.CaughtBy = r.CaughtBy[:4]
			}
			if len(r.CaughtBy) > 0 {
				r.Outcome = "caught"
			} else {
				r.Outcome = "missed"
				r.Why = "no new open obligation" + map[bool]string{true: " matching " + m.Expect, false: ""}[m.Expect != ""]
			}
			res[i] = r
		}(i, m)
	}
	wg.Wait()
	n := map[string]int{}
	for _, r := range res {
		n[r.Outcome]++
		switch r.Outcome {
		case "caught":
			fmt.Printf("SELFTEST property=%s mutant=%s (%s): caught by %s\n", id, r.Name, r.Origin, r.CaughtBy[0])
		default:
			fmt.Printf("SELFTEST property=%s mutant=%s (%s): %s %s\n", id, r.Name, r.Origin, strings.ToUpper(r.Outcome), r.Why)
		}
	}
	return map[string]any{
		"what":    "each mutant is one seeded change (archived sub-agent seeds confirmed by execution, reverted fix commits, hand-written edits) applied to the CURRENT /repo files as an in-memory go/packages overlay; 'caught' = the property's rules open an obligation that is closed on the unmodified tree. Tests the checker, never the verdict on /repo; 'skipped' = the edit no longer applies or no longer compiles",
		"applied": n["caught"] + n["missed"],
		"caught":  n["caught"],
		"missed":  n["missed"],
		"skipped": n["skipped"],
		"errors":  n["error"],
		"results": res,
	}
}

// neutralPatchTest applies every archived property-preserving patch of the property
// (/verif/neutral/<id>/n*.diff: everyday edits written by sub-agents that saw only the
// property's text — reworded messages, renames, extracted helpers, restructured
// conditions, added instrumentation, moved code, adjacent features, equivalent rewrites)
// as an overlay and counts the obligations that open although nothing was broken.
// Never influences the verdict on /repo.
func neutralPatchTest(repo, verif, id string, baseOpen map[string]bool) map[string]any {
	res := map[string]any{"what": "archived property-preserving patches (neutral/" + id + "/n*.diff) applied as overlays; every obligation that opens is a false alarm of the checker"}
	files, _ := filepath.Glob(filepath.Join(verif, "neutral", id, "n*.diff"))
	sort.Strings(files)
	var rows []map[string]any
	silent, alarmed, skipped := 0, 0, 0
	par := 4
	if n, err := strconv.Atoi(os.Getenv("OBSA_PAR")); err == nil && n > 0 {
		par = n
	}
	out := make([]map[string]any, len(files))
	sem := make(chan struct{}, par)
	var wg sync.WaitGroup
	for i, f := range files {
		wg.Add(1)
		go func(i int, f string) {
			defer wg.Done()
			sem <- struct{}{}
			defer func() { <-sem }()
			name := filepath.Base(f)
			row := map[string]any{"patch": name}
			out[i] = row
			dir, err := os.MkdirTemp("", "obsa-neutral-")
			if err != nil {
				row["outcome"] = "error: " + err.Error()
				return
			}
			defer os.RemoveAll(dir)
			rel, _ := filepath.Rel(verif, f)
			ok, why := materialise(repo, verif, mutant{Name: name, Origin: "neutral", Patch: rel}, dir)
			if !ok {
				row["outcome"] = "skipped: " + why
				return
			}
			o, err := runObls(repo, id, "OBSA_OVERLAY_DIR="+dir)
			if err != nil {
				row["outcome"] = "error: " + err.Error()
				return
			}
			if o.Status != "ok" {
				row["outcome"] = "skipped: " + o.Status + ": " + tail(o.Msg, 200)
				return
			}
			var alarms []string
			for _, op := range o.Open {
				if !baseOpen[op.Key] {
					alarms = append(alarms, op.Status+" "+op.Clause+" "+op.Key)
				}
			}
			row["false_alarms"] = alarms
			if len(alarms) == 0 {
				row["outcome"] = "silent"
			} else {
				row["outcome"] = "alarmed"
			}
		}(i, f)
	}
	wg.Wait()
	for _, row := range out {
		rows = append(rows, row)
		switch oc := row["outcome"].(string); {
		case oc == "silent":
			silent++
			fmt.Printf("SELFTEST property=%s neutral-patch=%s: silent (as required)\n", id, row["patch"])
		case oc == "alarmed":
			alarmed++
			al := row["false_alarms"].([]string)
			fmt.Printf("SELFTEST property=%s neutral-patch=%s: %d FALSE ALARM(S), first: %s\n", id, row["patch"], len(al), tail(al[0], 200))
		default:
			skipped++
			fmt.Printf("SELFTEST property=%s neutral-patch=%s: %s\n", id, row["patch"], strings.ToUpper(oc[:7])+oc[7:])
		}
	}
	res["patches"], res["silent"], res["alarmed"], res["skipped"], res["results"] = len(files), silent, alarmed, skipped, rows
	return res
}
