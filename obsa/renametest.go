package main

// Neutral-change test of the checker: every variable (receiver, parameter,
// named result, local) declared in the functions a property's rules look at is
// renamed, consistently and type-resolved (go/types Defs/Uses, not text), in an
// in-memory overlay of /repo. The program's behaviour is unchanged, so the
// rules must open no obligation. Thorough tier; never affects the exit code.

import (
	"fmt"
	"go/ast"
	"go/parser"
	"go/token"
	"go/types"
	"os"
	"path/filepath"
	"sort"
	"strings"

	"golang.org/x/tools/go/ssa"

	"obsa/eng"
)

type edit struct {
	off, n int
	s      string
}

// renameOverlayDir writes renamed copies of the files that declare the given
// functions into dir (mirroring repo-relative paths); returns #functions, #identifiers.
func renameOverlayDir(p *eng.Prog, repo string, fns map[*ssa.Function]bool, dir string) (int, int, error) {
	type span struct{ lo, hi token.Pos }
	byPkg := map[string][]span{}
	nf := 0
	for fn := range fns {
		top := eng.TopFunc(fn)
		if top.Origin() != nil {
			top = top.Origin()
		}
		syn := top.Syntax()
		if syn == nil || top.Pkg == nil {
			continue
		}
		nf++
		byPkg[top.Pkg.Pkg.Path()] = append(byPkg[top.Pkg.Pkg.Path()], span{syn.Pos(), syn.End()})
	}
	edits := map[string][]edit{}
	nid := 0
	for path, spans := range byPkg {
		pk := p.ByPath[path]
		if pk == nil || pk.TypesInfo == nil {
			continue
		}
		inSpan := func(pos token.Pos) bool {
			for _, s := range spans {
				if pos >= s.lo && pos < s.hi {
					return true
				}
			}
			return false
		}
		target := func(o types.Object) bool {
			v, ok := o.(*types.Var)
			if !ok || v.IsField() || v.Name() == "_" || v.Name() == "" {
				return false
			}
			if v.Parent() == nil || v.Parent() == pk.Types.Scope() || v.Parent() == types.Universe {
				return false
			}
			return inSpan(v.Pos())
		}
		add := func(id *ast.Ident, o types.Object) {
			if id == nil || o == nil || !target(o) || !id.Pos().IsValid() {
				return
			}
			pos := p.Fset.Position(id.Pos())
			edits[pos.Filename] = append(edits[pos.Filename], edit{pos.Offset, len(id.Name), id.Name + "Rn"})
			nid++
		}
		for id, o := range pk.TypesInfo.Defs {
			add(id, o)
		}
		for id, o := range pk.TypesInfo.Uses {
			add(id, o)
		}
		// `x := v.(type)` declares x implicitly per clause: the symbol identifier is in Defs with a nil
		// object; its per-clause objects are in Implicits and its uses point to them.
		for node, o := range pk.TypesInfo.Implicits {
			cc, ok := node.(*ast.CaseClause)
			if !ok || !target(o) {
				continue
			}
			_ = cc
		}
		for _, f := range pk.Syntax {
			ast.Inspect(f, func(n ast.Node) bool {
				ts, ok := n.(*ast.TypeSwitchStmt)
				if !ok {
					return true
				}
				as, ok := ts.Assign.(*ast.AssignStmt)
				if !ok || len(as.Lhs) != 1 {
					return true
				}
				id, ok := as.Lhs[0].(*ast.Ident)
				if !ok || !inSpan(id.Pos()) || id.Name == "_" {
					return true
				}
				pos := p.Fset.Position(id.Pos())
				edits[pos.Filename] = append(edits[pos.Filename], edit{pos.Offset, len(id.Name), id.Name + "Rn"})
				nid++
				return true
			})
		}
	}
	for file, es := range edits {
		b, err := os.ReadFile(file)
		if err != nil {
			return 0, 0, err
		}
		sort.Slice(es, func(i, j int) bool { return es[i].off > es[j].off })
		last := -1
		for _, e := range es {
			if e.off == last {
				continue // the same identifier reached through Defs and Uses
			}
			last = e.off
			if e.off+e.n > len(b) || string(b[e.off:e.off+e.n])+"Rn" != e.s {
				return 0, 0, fmt.Errorf("rename: source of %s changed while loading", file)
			}
			b = append(b[:e.off], append([]byte(e.s), b[e.off+e.n:]...)...)
		}
		rel, err := filepath.Rel(repo, file)
		if err != nil || strings.HasPrefix(rel, "..") {
			continue
		}
		out := filepath.Join(dir, rel)
		os.MkdirAll(filepath.Dir(out), 0o755)
		if err := os.WriteFile(out, b, 0o644); err != nil {
			return 0, 0, err
		}
	}
	return nf, nid, nil
}

// swapEqOperands rewrites, in the files already written to dir, every `x == y`
// / `x != y` inside the target functions to `y == x` / `y != x` (a second
// neutral change: the rules must not depend on operand order).
var msgs, nClos int

func swapEqOperands(dir string, fns map[*ssa.Function]bool) (int, error) {
	msgs, nClos = 0, 0
	names := map[string]bool{}
	for fn := range fns {
		top := eng.TopFunc(fn)
		if top.Origin() != nil {
			top = top.Origin()
		}
		names[top.Name()] = true
	}
	n := 0
	err := filepath.Walk(dir, func(path string, info os.FileInfo, err error) error {
		if err != nil || info.IsDir() || !strings.HasSuffix(path, ".go") {
			return err
		}
		src, err := os.ReadFile(path)
		if err != nil {
			return err
		}
		fset := token.NewFileSet()
		file, err := parser.ParseFile(fset, path, src, parser.ParseComments)
		if err != nil {
			return nil // leave the file as it is; the loader will report real errors
		}
		var es []edit
		nMsg := 0
		for _, d := range file.Decls {
			fd, ok := d.(*ast.FuncDecl)
			if !ok || fd.Body == nil || !names[fd.Name.Name] {
				continue
			}
			// fourth neutral change: an immediately-invoked empty closure as the first statement shifts the
			// number go/ssa gives every anonymous function behind it (eng/closures.go maps them back)
			if len(fd.Body.List) > 0 {
				ins := "\n\tfunc() {}()\n"
				if os.Getenv("OBSA_NEUTRAL_DEFER") != "" {
					ins = "\n\tdefer func() {}()\n"
				}
				es = append(es, edit{fset.Position(fd.Body.Lbrace).Offset + 1, 0, ins})
				nClos++
			}
			// third neutral change: reword error and log messages (first string literal of fmt.Errorf,
			// errors.New, ErrorResponse and logger calls)
			ast.Inspect(fd.Body, func(nd ast.Node) bool {
				ce, ok := nd.(*ast.CallExpr)
				if !ok || len(ce.Args) == 0 {
					return true
				}
				sel, ok := ce.Fun.(*ast.SelectorExpr)
				if !ok {
					return true
				}
				switch sel.Sel.Name {
				case "Errorf", "ErrorResponse", "Error", "Warn", "Info", "Debug", "Trace":
				case "New":
					if id, ok := sel.X.(*ast.Ident); !ok || id.Name != "errors" {
						return true
					}
				default:
					return true
				}
				lit, ok := ce.Args[0].(*ast.BasicLit)
				if !ok || lit.Kind != token.STRING || len(lit.Value) < 2 || lit.Value[0] != '"' {
					return true
				}
				off := fset.Position(lit.End()).Offset - 1
				es = append(es, edit{off, 0, " (reworded)"})
				nMsg++
				return true
			})
			ast.Inspect(fd.Body, func(nd ast.Node) bool {
				be, ok := nd.(*ast.BinaryExpr)
				if !ok || (be.Op != token.EQL && be.Op != token.NEQ) {
					return true
				}
				nested := false
				for _, side := range []ast.Expr{be.X, be.Y} {
					ast.Inspect(side, func(m ast.Node) bool {
						if b2, ok := m.(*ast.BinaryExpr); ok && (b2.Op == token.EQL || b2.Op == token.NEQ) {
							nested = true
						}
						return !nested
					})
				}
				if nested {
					return true
				}
				xs, xe := fset.Position(be.X.Pos()).Offset, fset.Position(be.X.End()).Offset
				ys, ye := fset.Position(be.Y.Pos()).Offset, fset.Position(be.Y.End()).Offset
				if xs >= xe || ys >= ye || xe > ys {
					return true
				}
				x, y := string(src[xs:xe]), string(src[ys:ye])
				es = append(es, edit{xs, ye - xs, y + string(src[xe:ys]) + x})
				n++
				return false
			})
		}
		sort.Slice(es, func(i, j int) bool { return es[i].off > es[j].off })
		for _, e := range es {
			src = append(src[:e.off], append([]byte(e.s), src[e.off+e.n:]...)...)
		}
		msgs += nMsg
		return os.WriteFile(path, src, 0o644)
	})
	return n, err
}

// renameTest renames every variable of the functions that carry obligations of
// the property and requires the rules to stay silent.
func renameTest(repo, id string, c *eng.Ctx, baseOpen map[string]bool) map[string]any {
	fns := map[*ssa.Function]bool{}
	byName := map[string]*ssa.Function{}
	for _, f := range c.P.Funcs {
		byName[eng.FuncName(f)] = f
	}
	for _, o := range c.Obls {
		if f := byName[o.Func]; f != nil {
			fns[f] = true
		}
	}
	res := map[string]any{
		"what": "every variable declared in the functions that carry obligations of this property (receivers, parameters, named results, locals) is renamed consistently through go/types in an in-memory overlay; behaviour is unchanged, so no obligation may open. Tests that verdicts do not depend on variable names (obsa/names.json maps renamed variables back)",
	}
	dir, err := os.MkdirTemp("", "obsa-rename-")
	if err != nil {
		res["outcome"] = "error: " + err.Error()
		return res
	}
	defer os.RemoveAll(dir)
	nf, nid, err := renameOverlayDir(c.P, repo, fns, dir)
	res["functions_renamed"], res["identifiers_rewritten"] = nf, nid
	if err == nil {
		var nsw int
		nsw, err = swapEqOperands(dir, fns)
		res["comparisons_swapped"] = nsw
		res["messages_reworded"] = msgs
		res["closures_inserted"] = nClos
	}
	if err != nil {
		res["outcome"] = "error: " + err.Error()
		return res
	}
	o, err := runObls(repo, id, "OBSA_OVERLAY_DIR="+dir)
	if err != nil {
		res["outcome"] = "error: " + err.Error()
		return res
	}
	if o.Status != "ok" {
		res["outcome"] = "skipped: renamed overlay does not load: " + tail(o.Msg, 300)
		fmt.Printf("SELFTEST property=%s neutral-rename: SKIPPED %s\n", id, tail(o.Msg, 200))
		return res
	}
	alarms := []string{}
	for _, op := range o.Open {
		if !baseOpen[op.Key] {
			alarms = append(alarms, op.Clause+" "+op.Key+" :: "+tail(op.Fact, 160))
		}
	}
	res["false_alarms"] = alarms
	if len(alarms) == 0 {
		res["outcome"] = "silent"
		fmt.Printf("SELFTEST property=%s neutral-rename of %d function(s), %d identifier(s): swap of %v ==/!= comparison(s), %v message(s) reworded, %v closure(s) inserted: silent (as required)\n", id, nf, nid, res["comparisons_swapped"], res["messages_reworded"], res["closures_inserted"])
	} else {
		res["outcome"] = "alarmed"
		fmt.Printf("SELFTEST property=%s neutral-rename of %d function(s): %d FALSE ALARM(S), first: %s\n", id, nf, len(alarms), alarms[0])
	}
	return res
}
