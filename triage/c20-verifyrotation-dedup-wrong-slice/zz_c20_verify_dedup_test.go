package vault

import (
	"testing"

	"github.com/openbao/openbao/v2/internal/helper/namespace"
	"github.com/stretchr/testify/require"
)

// A share that was already supplied during the verification of a rotation must
// be refused when it is supplied again (as Core.RekeyVerify does), so that the
// reconstruction is only attempted once `threshold` DISTINCT new shares have
// been collected.
func TestC20Triage_VerifyRotationRefusesRepeatedShare(t *testing.T) {
	bc := &SealConfig{SecretShares: 1, SecretThreshold: 1}
	c, rootKeys, _, _ := TestCoreUnsealedWithConfigs(t, bc, nil)
	ns := namespace.RootNamespace
	ctx := namespace.ContextWithNamespace(t.Context(), ns)
	sm := c.sealManager

	newConf := &SealConfig{
		Type:                 sm.NamespaceSeal(ns.UUID).BarrierType().String(),
		SecretShares:         5,
		SecretThreshold:      3,
		VerificationRequired: true,
	}
	_, err := sm.InitRotation(ctx, ns, newConf, false)
	require.NoError(t, err)
	rc := sm.RotationConfig(ns.UUID, false)
	require.NotNil(t, rc)

	// rotation phase: supply the existing share(s); the new shares come back, verification pending
	var res *RekeyResult
	for _, k := range rootKeys {
		res, err = sm.UpdateRotation(ctx, ns, k, rc.Nonce, false)
		require.NoError(t, err)
	}
	require.NotNil(t, res)
	require.True(t, res.VerificationRequired)
	require.Len(t, res.SecretShares, 5)
	vnonce := res.VerificationNonce

	// verification phase: the same new share, three times (threshold 3)
	share := res.SecretShares[0]
	out, err := sm.VerifyRotation(ctx, ns, share, vnonce, false)
	require.NoError(t, err)
	require.Nil(t, out, "one share of three: not complete")

	_, err = sm.VerifyRotation(ctx, ns, share, vnonce, false)
	if err == nil {
		rc = sm.RotationConfig(ns.UUID, false)
		t.Errorf("the share already supplied was accepted again: verification progress is now %d with 1 distinct share", len(rc.VerificationProgress))
	} else {
		t.Logf("second submission refused: %v", err)
		return
	}

	// third submission of the same share reaches the threshold gate with ONE distinct share:
	// reconstruction is attempted, fails, and everyone's verification progress is wiped
	_, err = sm.VerifyRotation(ctx, ns, share, vnonce, false)
	rc = sm.RotationConfig(ns.UUID, false)
	t.Errorf("third submission: err=%v; verification progress now %d, nonce changed=%v", err, len(rc.VerificationProgress), rc.VerificationNonce != vnonce)
}
