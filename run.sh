#!/bin/bash
# Entry point for every MANIFEST command. Static analysis only: nothing of /repo is executed.
set -u
cd "$(dirname "$0")"
export PATH=/opt/veriftools/go1.27.0/bin:$PATH
export GOTOOLCHAIN=local GOFLAGS=-mod=mod GOPROXY=off GOSUMDB=off
unset GOWORK
VERIF="$(pwd)"
export OBSA_VERIF="$VERIF"
export OBSA_REPO="${OBSA_REPO:-/repo}"
build() {
  (cd "$VERIF/obsa" && go build -o "$VERIF/bin/obsa" .) || { echo "obsa build failed"; exit 2; }
}
case "${1:-}" in
  setup)
    mkdir -p "$VERIF/bin" "$VERIF/evidence" "$VERIF/violations"
    build
    (cd "$VERIF/obsa" && go vet ./... ) || exit 2
    if [ -d "$VERIF/obsa/eng/testdata" ]; then (cd "$VERIF/obsa" && go test ./eng/ ) || exit 2; fi
    echo "setup ok"
    ;;
  check)
    [ -x "$VERIF/bin/obsa" ] || build
    exec "$VERIF/bin/obsa" check "$2" "${3:-quick}"
    ;;
  explain)
    [ -x "$VERIF/bin/obsa" ] || build
    cat "$2"; echo
    prop=$(jq -r .property "$2")
    exec "$VERIF/bin/obsa" check "$prop" quick
    ;;
  *)
    [ -x "$VERIF/bin/obsa" ] || build
    exec "$VERIF/bin/obsa" "$@"
    ;;
esac
