#!/usr/bin/env python3
"""Completes /verif/seeded/<name>/meta.json with what the coordinator ran and saw.
usage: seed_meta.py <name> <also-check Cxx ...>   (the seed's own property is always checked)"""
import json, os, subprocess, sys
name = sys.argv[1]; extra = sys.argv[2:]
d = '/verif/seeded/' + name
meta = json.load(open(d + '/meta.json'))
prop = meta['property']
props = [prop] + [p for p in extra if p != prop]
out = subprocess.run(['/verif/tools/seed_overlay.sh', d + '/patch.diff'] + props, capture_output=True, text=True).stdout
open(d + '/check.log', 'w').write("# rules evaluated on an in-memory overlay of /repo + patch.diff (tools/seed_overlay.sh); /repo not modified\n" + out)
caught = {}
cur = None
for line in out.splitlines():
    if line[:1] == 'C' and ' open=' in line:
        cur = line.split()[0]; caught[cur] = []
    elif line.startswith('    ') and cur:
        import re
        m = re.match(r'^\s+(\w+) (\S+) (.*?) @ ', line)
        if m:
            caught[cur].append(m.group(2) + ' ' + m.group(3))
# only obligations not open on the unmodified tree count: drop known findings
kf = json.load(open('/verif/known_findings.json'))['findings']
known = {f['rule'] + '|' + f['func'] + '|' + f['site'] for f in kf if f['status'] == 'known'}
for p in caught:
    caught[p] = [c for c in caught[p] if c.split(' ', 1)[1] not in known][:6]
confirm = open(d + '/confirm.log').read().strip().splitlines()
meta['coordinator'] = {
    'confirmed': any(l.startswith('CONFIRMED') for l in confirm),
    'what_i_ran': [
        'tools/seed_confirm.sh <agent worktree> <agent output dir> ' + name + '  (log: confirm.log): demonstration on the clean tree (must pass), git apply patch.diff, go build ./..., demonstration with the patch (must fail), go test of every touched package with the patch; failures compared with BASELINE stable_pass, apparent regressions re-run alone',
        'tools/seed_overlay.sh seeded/' + name + '/patch.diff ' + ' '.join(props) + '  (log: check.log)',
    ],
    'confirm_summary': [l for l in confirm if l.startswith('==') or l.startswith('exit') or 'CONFIRMED' in l or 'coordinator note' in l][-8:],
    'caught_by': {p: v for p, v in caught.items() if v},
    'missed_by': [p for p, v in caught.items() if not v and p == prop],
}
json.dump(meta, open(d + '/meta.json', 'w'), indent=1, ensure_ascii=False)
print(name, 'confirmed=', meta['coordinator']['confirmed'], {p: len(v) for p, v in caught.items()})
