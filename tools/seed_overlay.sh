#!/bin/bash
# usage: seed_overlay.sh <patch.diff> <Cxx> [Cyy...] — evaluates the rules on an in-memory overlay of /repo + patch (nothing written to /repo)
patch=$1; shift
d=$(mktemp -d /tmp/obsa-ov-XXXX)
trap 'rm -rf $d' EXIT
for f in $(grep '^+++ b/' $patch | sed 's#^+++ b/##'); do mkdir -p $d/$(dirname $f); cp /repo/$f $d/$f; done
patch -p1 -s -f --no-backup-if-mismatch -d $d < $patch || { echo "patch does not apply"; exit 2; }
find $d -name '*_test.go' -delete
for p in "$@"; do
  OBSA_OVERLAY_DIR=$d OBSA_REPO=/repo /verif/bin/obsa obls $p | tail -1 | python3 -c "
import json,sys
o=json.loads(sys.stdin.read())
print('$p',o['status'],o.get('msg','')[:300],'open=',len(o.get('open') or []))
for x in (o.get('open') or []): print('   ',x['status'],x['clause'],x['key'],'@',x['pos'],'::',x['fact'][:160])
"
done
