#!/bin/bash
# usage: seed_confirm.sh <worktree> <outdir> <dest-name>
# Confirms a seeded change in a scratch worktree: patch applies and builds, the demonstration
# passes without the patch and fails with it, the existing tests of the touched packages pass with it.
# Archives it under /verif/seeded/<dest-name>/.
set -u
wt=$1; out=$2; name=$3
export PATH=/opt/veriftools/go1.27.0/bin:$PATH GOTOOLCHAIN=local GOFLAGS=-mod=mod GOPROXY=off GOSUMDB=off
unset GOWORK
dest=/verif/seeded/$name
mkdir -p $dest
cp $out/patch.diff $out/meta.json $dest/ 2>/dev/null
demo_path=$(jq -r .demo_path $out/meta.json)
demo_cmd=$(jq -r .demo_cmd $out/meta.json)
demo_file=$(ls $out | grep -v 'patch.diff\|meta.json\|TASK.md' | head -1)
cp $out/$demo_file $dest/
log=$dest/confirm.log
: > $log
cd $wt || exit 2
git checkout -q -- . ; git clean -qfd
echo "== clean tree: $(git rev-parse --short HEAD)" >> $log
mkdir -p $(dirname $demo_path); cp $out/$demo_file $demo_path
echo "== demo WITHOUT patch: $demo_cmd" >> $log
( eval "$demo_cmd" ) > $dest/demo_without.log 2>&1; r0=$?
echo "exit=$r0" >> $log
git apply $out/patch.diff >> $log 2>&1 || { echo "PATCH DOES NOT APPLY" >> $log; exit 1; }
echo "== build with patch" >> $log
( go build ./... ) >> $log 2>&1; rb=$?
echo "build exit=$rb" >> $log
echo "== demo WITH patch" >> $log
( eval "$demo_cmd" ) > $dest/demo_with.log 2>&1; r1=$?
echo "exit=$r1" >> $log
rm -f $demo_path
# existing tests of touched packages
pkgs=$(git diff --name-only | grep '\.go$' | xargs -n1 dirname | sort -u)
rt=0
for p in $pkgs; do
  case $p in sdk/*) (cd sdk && go test -count=1 -vet=off ./${p#sdk/}/ ) >> $dest/tests.log 2>&1 || rt=1 ;;
  *) go test -count=1 -vet=off -timeout 40m ./$p/ >> $dest/tests.log 2>&1 || rt=1 ;; esac
done
echo "== existing tests of touched packages ($pkgs): exit=$rt" >> $log
tail -5 $dest/tests.log >> $log
git checkout -q -- . ; git clean -qfd
if [ $r0 -eq 0 ] && [ $r1 -ne 0 ] && [ $rb -eq 0 ] && [ $rt -eq 0 ]; then echo "CONFIRMED" >> $log; else echo "NOT CONFIRMED (without=$r0 with=$r1 build=$rb tests=$rt)" >> $log; fi
# keep logs small
for f in demo_without.log demo_with.log tests.log; do [ -f $dest/$f ] && tail -c 20000 $dest/$f > $dest/$f.t && mv $dest/$f.t $dest/$f; done
tail -3 $log
