#!/bin/bash
# usage: seed_confirm.sh <worktree> <outdir> <dest-name>
# Confirms a seeded change in a scratch worktree: patch applies and builds, the demonstration
# passes without the patch and fails with it, the existing tests of the touched packages pass with it.
# Archives it under /verif/seeded/<dest-name>/.
set -u
wt=$1; out=$2; name=$3
export PATH=/opt/veriftools/go1.27.0/bin:$PATH GOTOOLCHAIN=local GOFLAGS=-mod=mod GOPROXY=off GOSUMDB=off
unset GOWORK
dest=/verif/seeded/$name
mkdir -p $dest
cp $out/patch.diff $out/meta.json $dest/ 2>/dev/null
demo_path=$(jq -r .demo_path $out/meta.json)
demo_cmd=$(jq -r .demo_cmd $out/meta.json | sed -E 's/ +\((run from|for sdk)[^)]*\) *$//')
demo_file=$(basename "$demo_path")
[ -f "$out/$demo_file" ] || demo_file=$(ls $out | grep -v 'patch.diff\|meta.json\|TASK.md\|\.log$' | head -1)
cp $out/$demo_file $dest/
log=$dest/confirm.log
: > $log
cd $wt || exit 2
git checkout -q -- . ; git clean -qfd
echo "== clean tree: $(git rev-parse --short HEAD)" >> $log
mkdir -p $(dirname $demo_path); cp $out/$demo_file $demo_path
echo "== demo WITHOUT patch: $demo_cmd" >> $log
( eval "$demo_cmd" ) > $dest/demo_without.log 2>&1; r0=$?
echo "exit=$r0" >> $log
git apply $out/patch.diff >> $log 2>&1 || { echo "PATCH DOES NOT APPLY" >> $log; exit 1; }
echo "== build with patch" >> $log
( go build ./... ) >> $log 2>&1; rb=$?
echo "build exit=$rb" >> $log
echo "== demo WITH patch" >> $log
( eval "$demo_cmd" ) > $dest/demo_with.log 2>&1; r1=$?
echo "exit=$r1" >> $log
rm -f $demo_path
# existing tests of touched packages: a failure counts only if the test is in the baseline's stable_pass list
pkgs=$(git diff --name-only | grep '\.go$' | xargs -n1 dirname | sort -u)
: > $dest/tests.json
for p in $pkgs; do
  # a package without test files of its own is exercised by the packages below it (sdk/physical -> sdk/physical/...)
  sub=""; ls $p/*_test.go >/dev/null 2>&1 || sub="..."
  case $p in sdk/*) (cd sdk && go test -json -count=1 -vet=off ./${p#sdk/}/$sub ) >> $dest/tests.json 2>/dev/null ;;
  *) go test -json -count=1 -vet=off -timeout 40m ./$p/$sub >> $dest/tests.json 2>/dev/null ;; esac
done
python3 - "$dest" <<'PY' >> $log
import json,sys
dest=sys.argv[1]
stable=set(json.load(open('/root/.vp/BASELINE.json'))['stable_pass'])
failed=set(); passed=0; buildfail=[]
for line in open(dest+'/tests.json',errors='replace'):
    try: e=json.loads(line)
    except Exception: continue
    if e.get('Action')=='fail' and e.get('Test'):
        failed.add(e['Package']+'::'+e['Test'])
    if e.get('Action')=='pass' and e.get('Test'): passed+=1
    if e.get('Action')=='fail' and not e.get('Test') and e.get('Elapsed',1)==0: buildfail.append(e.get('Package'))
reg=sorted(f for f in failed if f in stable)
print("== existing tests of touched packages: passed=%d failed=%d of which in baseline stable_pass=%d"%(passed,len(failed),len(reg)))
for f in sorted(failed): print("   failed%s: %s"%(" (BASELINE-STABLE => regression)" if f in stable else " (not in baseline stable_pass: environmental)",f))
open(dest+'/tests_summary.json','w').write(json.dumps({"passed":passed,"failed":sorted(failed),"regressions":reg}))
sys.exit(1 if reg or passed==0 else 0)
PY
rt=$?
rm -f $dest/tests.json
if [ $rt -ne 0 ] && [ -f $dest/tests_summary.json ]; then
  # timing-sensitive tests fail under load: re-run each apparent regression alone before believing it
  still=0
  for t in $(jq -r '.regressions[]' $dest/tests_summary.json); do
    pkg=${t%%::*}; name=${t##*::}; top=${name%%/*}
    rel=${pkg#github.com/openbao/openbao/v2/}
    if go test -count=1 -vet=off -run "^${top}\$" ./$rel/ > /dev/null 2>&1; then
      echo "   re-run alone: $t PASSES (load-induced flake)" >> $log
    else
      echo "   re-run alone: $t still FAILS" >> $log; still=1
    fi
  done
  [ "$(jq -r '.passed' $dest/tests_summary.json)" -gt 0 ] && rt=$still
fi
git checkout -q -- . ; git clean -qfd
if [ $r0 -eq 0 ] && [ $r1 -ne 0 ] && [ $rb -eq 0 ] && [ $rt -eq 0 ]; then echo "CONFIRMED" >> $log; else echo "NOT CONFIRMED (without=$r0 with=$r1 build=$rb tests=$rt)" >> $log; fi
# keep logs small
for f in demo_without.log demo_with.log; do [ -f $dest/$f ] && tail -c 20000 $dest/$f > $dest/$f.t && mv $dest/$f.t $dest/$f; done
tail -3 $log
