#!/bin/bash
# usage: run_suite.sh <repo-dir> <out.json>  — runs the BASELINE test command on a copy of the repository and
# compares with BASELINE stable_pass (prints regressions). Used after fix commits; not a check.
repo=$1; out=$2
export PATH=/opt/veriftools/go1.27.0/bin:$PATH GOTOOLCHAIN=local GOPROXY=off GOSUMDB=off
. /w/out/goenv.sh
: > $out
for m in $(cat /w/out/gomods.txt); do MF=$(cd $repo/$m && gomodflag); (cd $repo/$m && go test $MF -json -vet=off -count=1 -timeout 25m ./...) >> $out 2>/dev/null; done
python3 - "$out" <<'PY'
import json,sys
stable=set(json.load(open('/root/.vp/BASELINE.json'))['stable_pass'])
res={}
for line in open(sys.argv[1],errors='replace'):
    try: e=json.loads(line)
    except Exception: continue
    if e.get('Test') and e.get('Action') in('pass','fail','skip'):
        res[e['Package']+'::'+e['Test']]=e['Action']
sample=sorted(stable)[:3]
print("sample stable ids:",sample)
def norm(k): return k
fails=[k for k,v in res.items() if v=='fail']
print("tests seen:",len(res),"failed:",len(fails))
reg=[k for k in stable if res.get(k)=='fail']
missing=[k for k in stable if k not in res]
print("REGRESSIONS (in stable_pass, failed now):",len(reg))
for r in sorted(reg): print("  ",r)
print("stable tests not seen:",len(missing)); print(sorted(missing)[:10])
PY
