#!/bin/bash
# usage: neutral_setup.sh <Cxx> <suffix>  — worktree /tmp/wt/<Cxx>-<suffix> + prompt /tmp/neutralout/<Cxx>-<suffix>/PROMPT.md from tools/NEUTRAL_BRIEF.md
set -eu
id=$1; suf=$2
wt=/tmp/wt/$id-$suf; out=/tmp/neutralout/$id-$suf
mkdir -p /tmp/wt /tmp/neutralout "$out"
[ -d "$wt" ] || git -C /repo worktree add -q --detach "$wt" HEAD
python3 - "$id" "$wt" "$out" <<'PY'
import json,sys
id,wt,out=sys.argv[1:4]
prop=[json.loads(l) for l in open('/verif/properties.jsonl') if l.strip() and json.loads(l)['id']==id][0]
for k in ('added_in_round','source'): prop.pop(k,None)
brief=open('/verif/tools/NEUTRAL_BRIEF.md').read().split('-----------------------------------------------------------------------------',1)[1]
import os
import glob
prevs=sorted(glob.glob('/verif/neutral/%s/neutral*.json'%id))
if os.environ.get('SPREAD') and prevs:
    fns=[]
    for prev in prevs:
        try:
            for r in json.load(open(prev)):
                for f in r.get('functions',[]):
                    if f not in fns: fns.append(f)
        except Exception: pass
    if fns:
        extra="\n\nOther engineers already delivered such patches touching the functions below. Spread yours over OTHER functions, files and mechanisms of the property's code wherever possible (reuse at most two of these), so that together the patches cover the property's code broadly:\n\n"+"\n".join("* `%s`"%f for f in fns[:60])+"\n"
        a=brief.index('Rules for every patch:')
        brief=brief[:a]+extra.lstrip('\n')+"\n"+brief[a:]
brief=brief.replace('{ID}',id).replace('{WT}',wt).replace('{OUT}',out).replace('{PROPERTY}',json.dumps(prop,indent=1,ensure_ascii=False))
open(out+'/PROMPT.md','w').write(brief.strip()+'\n')
PY
echo "$out/PROMPT.md"
