#!/bin/bash
# usage: neutral_setup.sh <Cxx> <suffix>  — worktree /tmp/wt/<Cxx>-<suffix> + prompt /tmp/neutralout/<Cxx>-<suffix>/PROMPT.md from tools/NEUTRAL_BRIEF.md
set -eu
id=$1; suf=$2
wt=/tmp/wt/$id-$suf; out=/tmp/neutralout/$id-$suf
mkdir -p /tmp/wt /tmp/neutralout "$out"
[ -d "$wt" ] || git -C /repo worktree add -q --detach "$wt" HEAD
python3 - "$id" "$wt" "$out" <<'PY'
import json,sys
id,wt,out=sys.argv[1:4]
prop=[json.loads(l) for l in open('/verif/properties.jsonl') if l.strip() and json.loads(l)['id']==id][0]
for k in ('added_in_round','source'): prop.pop(k,None)
brief=open('/verif/tools/NEUTRAL_BRIEF.md').read().split('-----------------------------------------------------------------------------',1)[1]
brief=brief.replace('{ID}',id).replace('{WT}',wt).replace('{OUT}',out).replace('{PROPERTY}',json.dumps(prop,indent=1,ensure_ascii=False))
open(out+'/PROMPT.md','w').write(brief.strip()+'\n')
PY
echo "$out/PROMPT.md"
