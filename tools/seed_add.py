#!/usr/bin/env python3
# usage: seed_add.py Cxx-s [Cyy-s ...] — appends archived seeds to /verif/mutants/Cxx.json (origin "seeded") if not there yet
import json,sys
for s in sys.argv[1:]:
    p,suf=s.split('-')
    f=f"/verif/mutants/{p}.json"; a=json.load(open(f)); name=f"seed-{p}-{suf}"
    if any(x['name']==name for x in a): print(name,'already'); continue
    meta=json.load(open(f"/verif/seeded/{s}/meta.json"))
    idx=max(i for i,x in enumerate(a) if x.get('origin')=='seeded')+1
    a.insert(idx,{"name":name,"origin":"seeded","patch":f"seeded/{s}/patch.diff","what":meta['summary'][:300]})
    json.dump(a,open(f,'w'),indent=1,ensure_ascii=False); print("added",name)
