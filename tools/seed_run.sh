#!/bin/bash
# usage: seed_run.sh <seed-name> [Cxx ...]   — applies /verif/seeded/<seed-name>/patch.diff to /repo, runs the checks, reverts.
name=$1; shift
d=/verif/seeded/$name
props="$@"
[ -z "$props" ] && props=$(jq -r .property $d/meta.json)
cd /repo || exit 2
if ! git diff --quiet; then echo "/repo has local modifications; refusing"; exit 2; fi
git apply $d/patch.diff || { echo "patch does not apply"; exit 2; }
trap 'git -C /repo checkout -q -- .' EXIT
: > $d/check.log
for p in $props; do
  /verif/run.sh check $p quick > /tmp/seed_run_$$.out 2>&1; rc=$?
  echo "== $p exit=$rc" | tee -a $d/check.log
  grep -A3 "^VIOLATION" /tmp/seed_run_$$.out | head -40 | tee -a $d/check.log
  rm -f /tmp/seed_run_$$.out
done
