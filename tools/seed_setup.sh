#!/bin/bash
# usage: seed_setup.sh <Cxx> <suffix>   e.g. seed_setup.sh C01 c
# Creates a scratch worktree /tmp/wt/<Cxx>-<suffix> of /repo HEAD and an output dir /tmp/seedout/<Cxx>-<suffix>,
# and prints the filled-in brief (tools/SEED_BRIEF.md) to /tmp/seedout/<Cxx>-<suffix>/PROMPT.md.
# The list of functions to avoid is taken from the hunks of every archived seed of the property.
set -eu
id=$1; suf=$2
wt=/tmp/wt/$id-$suf; out=/tmp/seedout/$id-$suf
mkdir -p /tmp/wt /tmp/seedout "$out"
[ -d "$wt" ] || git -C /repo worktree add -q --detach "$wt" HEAD
avoid=$([ -n "${NOAVOID:-}" ] && exit 0; python3 - "$id" <<'PY2'
import sys,glob,re,os
id=sys.argv[1]; out=set()
for d in sorted(glob.glob(f'/verif/seeded/{id}-*')):
    p=os.path.join(d,'patch.diff')
    if not os.path.exists(p): continue
    cur=None; oldno=0
    for line in open(p,errors='replace'):
        if line.startswith('+++ b/'): cur=line[6:].strip(); continue
        if line.startswith('--- '): continue
        m=re.match(r'^@@ -(\d+)',line)
        if m: oldno=int(m.group(1)); continue
        if cur is None or not cur.endswith('.go'): continue
        if line.startswith('-') or line.startswith('+'):
            # enclosing function of this position in the current tree
            try: src=open('/repo/'+cur,errors='replace').read().split('\n')
            except Exception: continue
            k=min(max(oldno-1,0),len(src)-1)
            while k>=0 and not src[k].startswith('func '): k-=1
            if k>=0: out.add('* `%s` — `%s`'%(cur,src[k][:110].rstrip(' {')))
        if not line.startswith('+'): oldno+=1
print('\n'.join(sorted(out)))
PY2
)
python3 - "$id" "$wt" "$out" <<PY
import json,sys
id,wt,out=sys.argv[1:4]
prop=[json.loads(l) for l in open('/verif/properties.jsonl') if l.strip() and json.loads(l)['id']==id][0]
for k in ('added_in_round','source'): prop.pop(k,None)
brief=open('/verif/tools/SEED_BRIEF.md').read().split('-----------------------------------------------------------------------------',1)[1]
avoid='''$avoid'''
if not avoid.strip():
    a=brief.index('3. Earlier injections'); b=brief.index('4. It must compile')
    brief=brief[:a]+"3. Choose whichever mechanism behind the property you find most natural to break — central functions are fine.\n\n"+brief[b:]
brief=brief.replace('{ID}',id).replace('{WT}',wt).replace('{OUT}',out).replace('{PROPERTY}',json.dumps(prop,indent=1,ensure_ascii=False)).replace('{AVOID}',avoid or '(none)')
open(out+'/PROMPT.md','w').write(brief.strip()+'\n')
PY
echo "$out/PROMPT.md"
