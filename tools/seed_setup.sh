#!/bin/bash
# usage: seed_setup.sh <Cxx> <suffix>   e.g. seed_setup.sh C01 c
# Creates a scratch worktree /tmp/wt/<Cxx>-<suffix> of /repo HEAD and an output dir /tmp/seedout/<Cxx>-<suffix>,
# and prints the filled-in brief (tools/SEED_BRIEF.md) to /tmp/seedout/<Cxx>-<suffix>/PROMPT.md.
# The list of functions to avoid is taken from the hunks of every archived seed of the property.
set -eu
id=$1; suf=$2
wt=/tmp/wt/$id-$suf; out=/tmp/seedout/$id-$suf
mkdir -p /tmp/wt /tmp/seedout "$out"
[ -d "$wt" ] || git -C /repo worktree add -q --detach "$wt" HEAD
avoid=$(for d in /verif/seeded/$id-*; do [ -f $d/patch.diff ] || continue
  grep -E '^(\+\+\+ b/|@@)' $d/patch.diff | sed -E 's/^@@[^@]*@@ ?//' | awk '/^\+\+\+/{f=substr($2,3); next} NF{print "* `" f "` — `" $0 "`"}' ; done | sort -u)
python3 - "$id" "$wt" "$out" <<PY
import json,sys
id,wt,out=sys.argv[1:4]
prop=[json.loads(l) for l in open('/verif/properties.jsonl') if l.strip() and json.loads(l)['id']==id][0]
for k in ('added_in_round','source'): prop.pop(k,None)
brief=open('/verif/tools/SEED_BRIEF.md').read().split('-----------------------------------------------------------------------------',1)[1]
avoid='''$avoid'''
brief=brief.replace('{ID}',id).replace('{WT}',wt).replace('{OUT}',out).replace('{PROPERTY}',json.dumps(prop,indent=1,ensure_ascii=False)).replace('{AVOID}',avoid or '(none)')
open(out+'/PROMPT.md','w').write(brief.strip()+'\n')
PY
echo "$out/PROMPT.md"
