#!/bin/bash
# usage: neutral_eval.sh <dir with n*.diff> <Cxx> [Cyy...] — evaluates each neutral patch by overlay; prints obligations that are open with the patch but not on the unchanged tree
dir=$1; shift
for p in "$@"; do
  base=$(${OBSA_BIN:-/verif/bin/obsa} obls $p | tail -1 | python3 -c "import json,sys; o=json.loads(sys.stdin.read()); print('\n'.join(x['key'] for x in (o.get('open') or [])))")
  for f in $dir/n*.diff; do
    d=$(mktemp -d /tmp/obsa-ov-XXXX)
    for g in $(grep '^+++ b/' $f | sed 's#^+++ b/##'); do mkdir -p $d/$(dirname $g); [ -f /repo/$g ] && cp /repo/$g $d/$g; done
    if ! patch -p1 -s -f --no-backup-if-mismatch -d $d < $f >/dev/null 2>&1; then echo "$p $(basename $f): patch does not apply"; rm -rf $d; continue; fi
    find $d -name '*_test.go' -delete
    OBSA_OVERLAY_DIR=$d OBSA_REPO=/repo ${OBSA_BIN:-/verif/bin/obsa} obls $p | tail -1 | BASE="$base" python3 -c "
import json,sys,os
o=json.loads(sys.stdin.read()); base=set(os.environ['BASE'].split('\n'))
new=[x for x in (o.get('open') or []) if x['key'] not in base]
print('$p $(basename $f):',o['status'],(o.get('msg') or '')[:200],'FALSE ALARMS=%d'%len(new))
for x in new: print('     ',x['status'],x['clause'],x['key'][:170],'::',x['fact'][:200])
"
    rm -rf $d
  done
done
